"""C02 — joining a task returns that task's own result once it finishes (exploration, incl. one hook-forced schedule)."""
import vlib
from checks import common_loops as cl, common_core as cc

PID = "C02"
RULE = ("One process per configuration: event loops {1,2,4} x joiner threads {1,2,4,16} x 6-120 tasks per joiner with bodies instant / busy 1 ms / 5 ms delay / panic with static message / panic with formatted message; each joiner submits, optionally dawdles, then timeout_join(3 s); one task in seven is a try-join: the joiner waits until the task has finished, 20 ms more, and joins with a zero timeout, which must return the stored outcome. "
        "The task stamps 'finished' as its last statement. Oracle: the join returns Ok(Ok(Some(uid-derived value))) or Ok(Err(that task's panic message)); TimedOut only if the task had not finished; return - max(call, finish) <= 1 s (healthy: one poll slice). "
        "Every third case forces the lost-wakeup schedule through the `join:after_first_check` pause hook: the waiter is held after its first result check until the task has finished + 20 ms, then allowed to register. "
        "Every fifth case issues the joins from inside tasks: 1-8 parent tasks on one loop each submit 2-12 children (instant / busy / delay / panic) and join them from their own coroutine with a 5 s timeout (wait_task_result then runs queued tasks inline); same oracle, a timeout on a child that had not finished 200 ms before the deadline is not judged. "
        "Non-trivial = the join was issued before the task finished, or the pause hook fired; distinct = configuration.")

def run(tier, seed, t0):
    cases = cl.run_cases(PID, "c02", seed, tier, 150 if tier == "thorough" else 20, case_timeout=400, jobs=9)
    from checks import common_hook as ch
    try:
        cases += ch.cases(PID, seed, tier, 4 if tier != "thorough" else 20)
        if tier == "thorough":
            cases += ch.memcheck_cases(PID, seed, 6)
    except vlib.BuildError as e:
        c = vlib.Case(7_000_000); c.engine = "LD_PRELOAD interposition"; c.verdict = "inconclusive"; c.sig = "harness/hook-dylib-build-failed"; c.detail = str(e); cases.append(c)
    if tier == "thorough":
        try:
            cases += cl.asan_cases(PID, "c02", seed, 20, binname="loops")
        except vlib.BuildError as e:
            c = vlib.Case(3_000_000); c.engine = "asan"; c.verdict = "inconclusive"; c.sig = "harness/asan-build-failed"; c.detail = str(e)[:300]; cases.append(c)
    return vlib.finish(PID, tier, seed, "exploration", cases, rule=RULE, t0=t0, replay_builder=cl.rb_factory("c02", seed),
                       assumptions=["1 s promptness slack against 3 s join timeouts", "the C-ABI wrappers (task_join / JoinHandle::join in the open-coroutine crate) only map this result and are not driven separately"])

replay = cc.replay_factory(PID)
