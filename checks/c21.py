"""C21 — OS readiness interest matches outstanding waits (exploration)."""
import vlib
from checks import common_loops as cl, common_core as cc

PID = "C21"
RULE = ("Histories of 8-40 operations over 3 socketpairs: wait_read_event(fd,0), wait_write_event(fd,0), del_event, del_read_event, del_write_event, hooked shutdown(RD|WR|RDWR), hooked close + new socketpair (descriptor reuse), "
        "issued from a plain thread or from inside tasks, with 1 or 2 event loops. After every operation the kernel's registrations (union of `tfd/events` over every epoll instance in /proc/self/fdinfo) are compared with a model fd -> {R,W} updated by the operations themselves; "
        "a reused descriptor number must start empty; the peer ends must never appear. Non-trivial = a descriptor had read+write interest together or a number was reused; distinct = history fingerprint.")

def run(tier, seed, t0):
    cases = cl.run_cases(PID, "c21", seed, tier, 1200 if tier == "thorough" else 96, case_timeout=60, jobs=16)
    return vlib.finish(PID, tier, seed, "exploration", cases, rule=RULE, t0=t0, replay_builder=cl.rb_factory("c21", seed),
                       assumptions=["'outstanding' = added by a wait and not yet removed by del_*/shutdown/close (registrations are edge-triggered and stay until removed)", "Linux epoll; fdinfo is the ground truth"])

replay = cc.replay_factory(PID)
