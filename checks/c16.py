"""C16 — hooked socket I/O reports exactly the bytes it transferred (fault_enumeration)."""
import vlib
from checks import common_sys as cs, common_core as cc

PID = "C16"
RULE = cs.IO_RULE + ("C16 oracle: return value == total bytes the kernel moved; -1 iff nothing moved and the last inner call failed, with that call's errno; 0 for a zero-length request and for end-of-stream with nothing moved; "
        "read side: the caller's buffers hold exactly the next bytes of the stream in order, canaries around and behind untouched; write side: the kernel's transcript is exactly the next bytes of the caller's data, none twice. "
        "Non-trivial = non-empty script; distinct = (call, shape, script, mode, context). "
        "Added: the same accounting against the real kernel under real LD_PRELOAD interposition (wl-hook scenario 5): a task pushes 1..300 000 patterned bytes through libc send/write/writev/sendmsg/sendto into a 4 KiB socket buffer that a plain thread drains slowly "
        "(the caller advances by each return value; the peer's transcript must equal the caller's data byte for byte), then reads an answer arriving in odd-sized pieces through recv/read/readv/recvmsg/recvfrom "
        "(each return value must be the number of next-in-stream bytes now in the buffers, nothing written beyond it, canaries intact).")

def run(tier, seed, t0):
    cases, lmax, grid = cs.io_cases(PID, seed, tier, "C16")
    # real kernel, real interposition: tasks push/pull patterned streams through the preloaded hook library
    from checks import common_hook as ch
    try:
        cases += ch.cases(PID, seed, tier, 12 if tier != "thorough" else 75)
        if tier == "thorough":
            cases += ch.memcheck_cases(PID, seed, 6)
    except vlib.BuildError as e:
        c = vlib.Case(7_000_000); c.engine = "LD_PRELOAD interposition"; c.verdict = "inconclusive"; c.sig = "harness/hook-dylib-build-failed"; c.detail = str(e); cases.append(c)
    base = cs.io_replay_builder("C16", seed, tier, lmax)
    def rb(c):
        return ch.replay_cmd(c, seed) if c.idx >= 7_000_000 else base(c)
    return vlib.finish(PID, tier, seed, "fault_enumeration", cases, rule=RULE, t0=t0, replay_builder=rb,
                       extra_cov={"exhaustive_grid_cases": grid, "grid_script_length": lmax, "exhaustive": False},
                       assumptions=["the scripted kernel stands in for the real transfer; readiness waits, fcntl and socket options are real", "errno after a timeout may be EAGAIN/EWOULDBLOCK/ETIMEDOUT"])

replay = cc.replay_factory(PID)
