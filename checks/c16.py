"""C16 — hooked socket I/O reports exactly the bytes it transferred (fault_enumeration)."""
import vlib
from checks import common_sys as cs, common_core as cc

PID = "C16"
RULE = cs.IO_RULE + ("C16 oracle: return value == total bytes the kernel moved; -1 iff nothing moved and the last inner call failed, with that call's errno; 0 for a zero-length request and for end-of-stream with nothing moved; "
        "read side: the caller's buffers hold exactly the next bytes of the stream in order, canaries around and behind untouched; write side: the kernel's transcript is exactly the next bytes of the caller's data, none twice. "
        "Non-trivial = non-empty script; distinct = (call, shape, script, mode, context).")

def run(tier, seed, t0):
    cases, lmax, grid = cs.io_cases(PID, seed, tier, "C16")
    return vlib.finish(PID, tier, seed, "fault_enumeration", cases, rule=RULE, t0=t0, replay_builder=cs.io_replay_builder("C16", seed, tier, lmax),
                       extra_cov={"exhaustive_grid_cases": grid, "grid_script_length": lmax, "exhaustive": False},
                       assumptions=["the scripted kernel stands in for the real transfer; readiness waits, fcntl and socket options are real", "errno after a timeout may be EAGAIN/EWOULDBLOCK/ETIMEDOUT"])

replay = cc.replay_factory(PID)
