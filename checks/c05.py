"""C05 — higher priority first, FIFO among equals (exploration + bounded-exhaustive slice)."""
import os
import vlib
from checks import common_pure as cp

PID = "C05"
RULE = ("Reference model = ordered multimap (priority, arrival) -> item, applied only where the statement is unambiguous about 'the same queue': "
        "(i) the shared ordered queue alone, (ii) one local queue that never exceeds its capacity with the shared queue empty, (iii) steal batches: "
        "everything resident together in the thief's local queue (stolen batch + the thief's own later pushes) must come out sorted by (priority, arrival) and "
        "carry the priority it was pushed with, (iv) bounded-exhaustive: every history of <= L ops over {push p in {-1,0,1}, pop} on the shared and on a local queue. "
        "Histories that overflow are not judged against a global order. Non-trivial = history has equal priorities and >= 4 ops; distinct = trace fingerprint. "
        "(v) pool level: a CoroutinePool with max_size 1 and 2-256 queued tasks of random priorities (incl. ties and i64 extremes): task start order must equal the stable sort by priority.")

def run(tier, seed, t0):
    thorough = tier == "thorough"
    d = cp.build_native()
    q = os.path.join(d, "queues")
    n = 30000 if thorough else 3000
    stats = []
    cases = vlib.fan_out([q, "c05", "--seed", str(seed), "--tier", tier], n, engine="native", case_timeout=60)
    L = 7 if thorough else 5
    import subprocess
    p = subprocess.run([q, "c05", "--seed", str(seed), "--from", "0", "--to", "0", "--exhaustive", str(L)], capture_output=True, text=True, timeout=1800)
    exh_total = exh_viol = 0
    for r in vlib.parse_records(p.stdout):
        if r.get("t") == "stat":
            stats.append(r["stat"]); exh_total = r["stat"].get("exhaustive_histories", 0); exh_viol = r["stat"].get("exhaustive_violations", 0)
        elif r.get("t") == "begin":
            c = vlib.Case(r["case"]); c.engine = "native-exhaustive"; c.desc = r["desc"]; cases.append(c)
        elif r.get("t") == "end":
            c = cases[-1]; c.verdict = r["verdict"]; c.sig = r["sig"]; c.detail = r["detail"]; c.nontrivial = True; c.fp = f"exh{r['case']}"
    cases += cp_miri(seed, tier) if thorough else []
    from checks import common_loops as cl
    pc = cl.run_cases(PID, "c05", seed, tier, 1500 if thorough else 96, case_timeout=60, jobs=16, binname="pool", offset=5_000_000, engine="native pool (max_size 1)")
    cases += pc
    def rb(c):
        if c.idx >= 5_000_000:
            return {"cmd": f"/verif/wl-core/target/release/pool c05 --seed {seed} --from {c.idx-5_000_000} --to {c.idx-5_000_000+1}"}
        if c.engine == "native-exhaustive":
            return {"cmd": f"/verif/wl-pure/target/release/queues c05 --seed {seed} --from 0 --to 0 --exhaustive {L}"}
        return {"cmd": f"/verif/wl-pure/target/release/queues c05 --seed {seed} --tier {tier} --from {c.idx} --to {c.idx+1}"}
    return vlib.finish(PID, tier, seed, "exploration", cases, rule=RULE, t0=t0, replay_builder=rb, stats=stats,
                       extra_cov={"exhaustive_slice": {"max_len": L, "histories": exh_total, "violations": exh_viol, "exhaustive": True}},
                       assumptions=["sequential histories (the quantifier is over histories and priorities)", "tick-61 shared consultation is irrelevant in scenarios (ii)/(iii) because the shared queue is kept empty there"])

def cp_miri(seed, tier):
    cp.miri_warm("queues")
    env = {"MIRIFLAGS": cp.MIRIFLAGS_BASE}
    mc = vlib.fan_out(cp.miri_argv("queues", "c05", seed, "quick"), 64, jobs=8, shard=8, engine="miri", env=env, case_timeout=600,
                      out_via_file=False, crash_policy=cp.miri_crash_policy(PID), cwd=os.path.join(vlib.VERIF, "wl-pure"))
    for c in mc:
        c.idx += 2_000_000
    return mc

replay = cp.generic_replay(PID, cp.build_native)
