"""Shared helpers for the wl-pure based checks (queues, beans, coroutine-local)."""
import os, subprocess, json, time
import vlib

MIRIFLAGS_BASE = "-Zmiri-disable-stacked-borrows -Zmiri-ignore-leaks"

def build_native():
    return vlib.cargo_build("wl-pure")

def miri_argv(binname, sub, seed, tier):
    return ["cargo", "+nightly", "miri", "run", "--offline", "-q", "--target-dir",
            os.path.join(vlib.VERIF, "wl-pure", "target-miri"), "--bin", binname, "--", sub, "--seed", str(seed), "--tier", tier]

def miri_warm(binname):
    """Build once (serially) so that the parallel shards only run."""
    env = dict(vlib.BASE_ENV); env["MIRIFLAGS"] = MIRIFLAGS_BASE
    t0 = time.time()
    p = subprocess.run(["cargo", "+nightly", "miri", "run", "--offline", "-q", "--target-dir",
                        os.path.join(vlib.VERIF, "wl-pure", "target-miri"), "--bin", binname, "--", "noop"],
                       cwd=os.path.join(vlib.VERIF, "wl-pure"), env=env, stdout=subprocess.PIPE, stderr=subprocess.STDOUT, text=True, timeout=1800)
    if "error: could not compile" in p.stdout or "error[E" in p.stdout:
        vlib.log(p.stdout[-4000:])
        raise vlib.BuildError("miri build of wl-pure failed")
    vlib.log(f"[build] wl-pure under miri ok in {time.time()-t0:.1f}s")

def miri_crash_policy(pid):
    def pol(case, rc, timed_out, tail):
        # Miri aborts the interpreter on UB / data race / deadlock: that is a sanitizer report about the real source
        if timed_out:
            return ("inconclusive", "harness/miri-timeout", tail[-300:])
        low = tail.lower()
        if "undefined behavior" in low or "data race" in low:
            kind = "data-race" if "data race" in low else "undefined-behavior"
            where = ""
            for line in tail.splitlines():
                if "/repo/core/src" in line and "-->" in line:
                    where = line.split("/repo/core/src/")[-1].strip().split(":")[0]
                    break
            return ("violated", f"{pid}/miri/{kind}/{where or 'unknown-site'}", tail[-1500:])
        if "deadlock" in low:
            return ("violated", f"{pid}/miri/deadlock", tail[-1500:])
        if "panicked at" in low:
            return ("violated", f"{pid}/miri/panic", tail[-1500:])
        return ("inconclusive", f"harness/miri-exit-{rc}", tail[-300:])
    return pol


def generic_replay(pid, builder):
    def replay(r):
        import subprocess
        builder()
        cmd = r["replay"]["cmd"]
        print("replaying:", cmd)
        p = subprocess.run(cmd, shell=True, capture_output=True, text=True, timeout=3600)
        out = p.stdout + p.stderr
        print(out[-3000:])
        recs = vlib.parse_records(out)
        bad = [x for x in recs if x.get("t") == "end" and x.get("verdict") == "violated"]
        if bad or p.returncode != 0:
            print(f"VIOLATION property={pid} replay={r.get('signature')}")
            return 1
        return 0
    return replay
