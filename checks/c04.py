"""C04 — queue operations (and therefore submission) always terminate (exploration, bounded-progress restatement)."""
import os
import vlib
from checks import common_pure as cp

PID = "C04"
RULE = ("Liveness restated as bounded progress: every push/pop call must return before it has consumed 1 s of its own thread's CPU time "
        "(healthy: microseconds), measured with the thread CPU clock by a watchdog thread, so machine load cannot cause an alarm. "
        "Workloads: (a) seeded sequential histories over 1 shared + 2-4 local queues, capacities 1-8, phases that fill one local, let siblings "
        "take from it and refill it; (b) the concurrent programs of C03 with the same per-call watchdog. Non-trivial (sequential) = some item "
        "pushed on local A was returned by another local AND A later pushed while believing itself full; (concurrent) = items crossed threads and "
        "a local could overflow. Distinct = history fingerprint.")

def run(tier, seed, t0):
    thorough = tier == "thorough"
    d = cp.build_native()
    q = os.path.join(d, "queues")
    def pol(case, rc, timed_out, tail):
        if "panicked at" in tail:
            return ("violated", f"{PID}/queue-call-panicked", tail[-800:])
        return vlib.default_crash_policy(case, rc, timed_out, tail)
    n1 = 6000 if thorough else 800
    cases = vlib.fan_out([q, "c04seq", "--seed", str(seed), "--tier", tier], n1, engine="native-sequential", case_timeout=60, crash_policy=pol)
    n2 = 640 if thorough else 64
    c2 = vlib.fan_out([q, "c04conc", "--seed", str(seed + 1), "--tier", tier], n2, engine="native-concurrent", case_timeout=150, crash_policy=pol, confirm_timing=True)
    for c in c2:
        c.idx += 1_000_000
    cases += c2
    def rb(c):
        sub, off = ("c04conc", 1_000_000) if c.idx >= 1_000_000 else ("c04seq", 0)
        s = seed + 1 if off else seed
        return {"cmd": f"/verif/wl-pure/target/release/queues {sub} --seed {s} --tier {tier} --from {c.idx-off} --to {c.idx-off+1}"}
    return vlib.finish(PID, tier, seed, "exploration", cases, rule=RULE, t0=t0, replay_builder=rb,
                       assumptions=["non-termination is judged as '>1 s of thread CPU time inside one call'", "task/coroutine submission is covered through the queue calls it makes (see C01 for the submitter side at runtime level)"])

replay = cp.generic_replay(PID, cp.build_native)
