"""C28 — time and slicing helpers never overflow or loop (exploration)."""
import vlib
from checks import common_core as cc

PID = "C28"
RULE = ("get_timeout_time(d): boundary table (0, 1 ns, u64::MAX ns, u64::MAX-1, Duration::MAX, u64::MAX s, exactly u64::MAX-now, just above it, ...) + seeded durations across all magnitudes: result must lie in [now_before+d, now_after+d] and be u64::MAX whenever now+d overflows. "
        "get_slices(total, slice != 0): boundary table (exact multiples, +-1 ns, Duration::MAX) + seeded pairs, executed on a helper thread with a 10 s step bound: every piece <= slice, non-empty, pieces sum to total, count == ceil(total/slice). "
        "Zero socket time limit => unlimited, other values => the option value, observed through recv/send_time_limit after setsockopt; limits at the edge of u64 nanoseconds set through the hooked setsockopt (tv_sec = 18 446 744 073 with and without a fitting tv_usec, 18 446 744 074, i64::MAX) must be exact while they fit and saturate at u64::MAX when they do not. Each case distinct by (function, magnitude class).")

def run(tier, seed, t0):
    cases = cc.simple(PID, "sys", "helpers", seed, tier, 300000 if tier == "thorough" else 6000, case_timeout=60, shard=250, jobs=32)
    def rb(c):
        return {"cmd": f"/verif/wl-core/target/release/sys helpers --seed {seed} --from {c.idx} --to {c.idx+1}"}
    return vlib.finish(PID, tier, seed, "exploration", cases, rule=RULE, t0=t0, replay_builder=rb, assumptions=["the wall clock does not jump during a case"])

replay = cc.replay_factory(PID)
