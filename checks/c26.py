"""C26 — named singletons are unique under concurrent first use (exploration)."""
import os
import vlib
from checks import common_pure as cp

PID = "C26"
RULE = ("N barrier-released threads (2-16, per-thread spin jitter) call BeanFactory::get_or_default::<T>(fresh name) on the real beans.rs: all returned addresses must be equal and equal to "
        "what get_bean returns afterwards. (a) many fresh names per process, (b) the factory's own lazy creation: one forked process per trial so that the first use is really the first, "
        "(c) both under Miri with -Zmiri-many-seeds (each seed = fresh interpreter = fresh process; also reports data races on the publication of the factory pointer), (d) TSan in thorough. "
        "Non-trivial = >= 2 threads raced; distinct = (part, thread count, how often the creation race was actually entered).")

def run(tier, seed, t0):
    thorough = tier == "thorough"
    d = cp.build_native()
    b = os.path.join(d, "beans")
    cases = vlib.fan_out([b, "names", "--seed", str(seed), "--rounds", "400" if thorough else "150"], 256 if thorough else 48, engine="native-names", case_timeout=120)
    c2 = vlib.fan_out([b, "factory", "--seed", str(seed), "--trials", "150" if thorough else "40"], 128 if thorough else 32, engine="native-factory-fork", case_timeout=120)
    for c in c2:
        c.idx += 100_000
    cases += c2
    cp.miri_warm("beans")
    seeds = 64 if thorough else 12
    env = {"MIRIFLAGS": f"{cp.MIRIFLAGS_BASE} -Zmiri-many-seeds=0..{seeds}"}
    wl = os.path.join(vlib.VERIF, "wl-pure")
    m1 = vlib.fan_out(cp.miri_argv("beans", "names", seed, tier), 4 if thorough else 2, shard=1, engine=f"miri-names x{seeds}", env=env, case_timeout=900,
                      out_via_file=False, multi_end=True, crash_policy=cp.miri_crash_policy(PID), cwd=wl)
    m2 = vlib.fan_out(cp.miri_argv("beans", "factory_once", seed, tier), 4 if thorough else 2, shard=1, engine=f"miri-first-use x{seeds}", env=env, case_timeout=900,
                      out_via_file=False, multi_end=True, crash_policy=cp.miri_crash_policy(PID), cwd=wl)
    for c in m1:
        c.idx += 200_000
    for c in m2:
        c.idx += 300_000
    cases += m1 + m2
    if thorough:
        cases += tsan(seed)
    def rb(c):
        if c.idx >= 300_000: return {"cmd": f"cd /verif/wl-pure && MIRIFLAGS='{env['MIRIFLAGS']}' cargo +nightly miri run --offline --target-dir target-miri --bin beans -- factory_once --from {c.idx-300_000} --to {c.idx-300_000+1}"}
        if c.idx >= 200_000: return {"cmd": f"cd /verif/wl-pure && MIRIFLAGS='{env['MIRIFLAGS']}' cargo +nightly miri run --offline --target-dir target-miri --bin beans -- names --seed {seed} --from {c.idx-200_000} --to {c.idx-200_000+1}"}
        if c.idx >= 100_000: return {"cmd": f"/verif/wl-pure/target/release/beans factory --seed {seed} --trials 200 --from {c.idx-100_000} --to {c.idx-100_000+1}"}
        return {"cmd": f"/verif/wl-pure/target/release/beans names --seed {seed} --rounds 400 --from {c.idx} --to {c.idx+1}"}
    return vlib.finish(PID, tier, seed, "exploration", cases, rule=RULE, t0=t0, replay_builder=rb,
                       assumptions=["the singleton users (task queue, coroutine queue, monitor) all go through BeanFactory::get_or_default", "sampled schedules only"])

def tsan(seed):
    tdir = os.path.join(vlib.VERIF, "wl-pure", "target-tsan")
    try:
        d = vlib.cargo_build("wl-pure", bins=["beans"], toolchain="nightly", target_dir=tdir, rustflags="-Zsanitizer=thread --cap-lints warn",
                             extra=["-Zbuild-std"], target="x86_64-unknown-linux-gnu")
    except vlib.BuildError as e:
        c = vlib.Case(400_000); c.engine = "tsan"; c.verdict = "inconclusive"; c.sig = "harness/tsan-build-failed"; c.detail = str(e); return [c]
    def pol(case, rc, timed_out, tail):
        if rc == 66 or "ThreadSanitizer: data race" in tail:
            return ("violated", f"{PID}/tsan/data-race", tail[-1500:])
        return vlib.default_crash_policy(case, rc, timed_out, tail)
    cs = vlib.fan_out([os.path.join(d, "beans"), "names", "--seed", str(seed + 3), "--rounds", "100"], 32, engine="tsan", env={"TSAN_OPTIONS": "halt_on_error=1 exitcode=66"}, case_timeout=300, crash_policy=pol)
    for c in cs:
        c.idx += 400_000
    return cs

replay = cp.generic_replay(PID, cp.build_native)
