"""C07 — coroutine lifecycle follows the documented state machine (exploration)."""
import vlib
from checks import common_core as cc

PID = "C07"
RULE = ("Generated coroutine bodies over {suspend, delay, enter syscall state, yield inside a syscall state, same-call syscall state change (Executing/Suspend/Callback), "
        "syscall of a different call (must be refused), leave syscall, cancel, panic, return} x generated resume sequences including illegal ones (resume before the wake-up time, resumes after a terminal state), "
        "driven directly through resume() and through a Scheduler. A recording Listener feeds an online automaton: old(k)==new(k-1), edge in the documented graph (Suspend->Ready/Running only once due), "
        "exactly one matching per-state callback with the right payload per change, state() == last reported state, nothing reported / no user step after a terminal state, terminal resumes return the stored outcome. "
        "Non-trivial = >= 3 transitions; distinct = transition-sequence fingerprint.")

def run(tier, seed, t0):
    thorough = tier == "thorough"
    cases = cc.simple(PID, "coro", "c07", seed, tier, 60000 if thorough else 4000, case_timeout=60)
    if thorough:
        d = cc.build_asan(bins=["coro"])
        import os
        a = vlib.fan_out([os.path.join(d, "coro"), "c07", "--seed", str(seed + 5), "--tier", tier], 4000, engine="asan", env=cc.ASAN_ENV, case_timeout=120, crash_policy=cc.asan_policy(PID))
        for c in a: c.idx += 10_000_000
        cases += a
    def rb(c):
        if c.idx >= 10_000_000: return {"cmd": f"/verif/wl-core/target-asan/x86_64-unknown-linux-gnu/release/coro c07 --seed {seed+5} --from {c.idx-10_000_000} --to {c.idx-10_000_000+1}", "env": cc.ASAN_ENV}
        return {"cmd": f"/verif/wl-core/target/release/coro c07 --seed {seed} --from {c.idx} --to {c.idx+1}"}
    return vlib.finish(PID, tier, seed, "exploration", cases, rule=RULE, t0=t0, replay_builder=rb,
                       assumptions=["a body that ends (panic/cancel) while parked in a Syscall state has no documented edge: the oracle only requires that nothing illegal is reported"])

replay = cc.replay_factory(PID)
