"""C17 — hooked vectored I/O only hands the kernel the caller's unfilled buffers (fault_enumeration)."""
import vlib
from checks import common_sys as cs, common_core as cc

PID = "C17"
RULE = cs.IO_RULE + ("C17 oracle, evaluated inside every scripted inner call: the (pointer,length) list it receives, zero-length entries dropped, must equal the model's remaining ranges of the caller's buffers (in order, starting at the right offset, inside the buffers), "
        "and the element count it is told (iovcnt / msg_iovlen) must not exceed the entries that can remain; in thorough the same binary runs under ASan, so an out-of-bounds read of the iovec array is reported independently. "
        "Non-trivial = vectored call with >= 2 inner calls; distinct = (call, shape, script, mode, context).")

def run(tier, seed, t0):
    cases, lmax, grid = cs.io_cases(PID, seed, tier, "C17")
    return vlib.finish(PID, tier, seed, "fault_enumeration", cases, rule=RULE, t0=t0, replay_builder=cs.io_replay_builder("C17", seed, tier, lmax),
                       extra_cov={"exhaustive_grid_cases": grid, "grid_script_length": lmax, "exhaustive": False},
                       assumptions=["a zero-length entry at the frontier may or may not be passed down"])

replay = cc.replay_factory(PID)
