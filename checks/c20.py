"""C20 — readiness wakes exactly the waiting coroutine, promptly (exploration)."""
import vlib
from checks import common_loops as cl, common_core as cc

PID = "C20"
RULE = ("1-16 tasks each put their coroutine in a Syscall state and wait for read (or write) readiness of their own socketpair end with a 3 s timeout, for 1-3 consecutive waits inside the same call; the driver makes descriptors ready in random order 100+ ms after "
        "the wait began; 0-1 waiter per case is never made ready. Observations: wait start/return stamps in the task, the time each descriptor was made ready, and the `resume` hook on the event loop (token, whether the token was registered). "
        "Oracle: a ready descriptor's waiter returns within 1 s (not at its 3 s timeout) AND the loop saw a readiness event carrying that coroutine's id in that window; a never-ready waiter does not return before its timeout; "
        "every registered-token resume belongs to a coroutine whose descriptor had been made ready. Non-trivial = at least one wait was woken by a matching readiness event; distinct = (waiters, rounds, interest, never-ready).")

def run(tier, seed, t0):
    cases = cl.run_cases(PID, "c20", seed, tier, 160 if tier == "thorough" else 24, case_timeout=60, jobs=12)
    return vlib.finish(PID, tier, seed, "exploration", cases, rule=RULE, t0=t0, replay_builder=cl.rb_factory("c20", seed),
                       assumptions=["epoll backend (mio), 64-bit target", "write interest is exercised with one round only: draining a full buffer raises several writable edges"])

replay = cc.replay_factory(PID)
