"""C20 — readiness wakes exactly the waiting coroutine, promptly (exploration)."""
import vlib
from checks import common_loops as cl, common_core as cc

PID = "C20"
RULE = ("1-16 tasks each put their coroutine in a Syscall state and wait for read (or write) readiness of their own socketpair end with a 3 s timeout, for 1-3 consecutive waits inside the same call; the driver makes descriptors ready in random order 100+ ms after "
        "the wait began; 0-1 waiter per case is never made ready. Observations: wait start/return stamps in the task, the time each descriptor was made ready, and the `resume` hook on the event loop (token, whether the token was registered). "
        "Oracle: a ready descriptor's waiter returns within 1 s (not at its 3 s timeout) AND the loop saw a readiness event carrying that coroutine's id in that window; a never-ready waiter does not return before its timeout; "
        "every registered-token resume belongs to a coroutine whose descriptor had been made ready. "
        "Every fourth case runs interest histories instead: 1-4 sockets, each with 1-3 segments of 2-4 steps from {wait read/write made ready, wait read/write that runs into a 120 ms timeout, del_read_event, del_write_event, del_event}; every segment is run by a fresh coroutine "
        "(the descriptor is handed over), waits re-check the socket like a hooked call and wait again after a wake-up caused by the other direction; each wait that is made ready must be woken within 1 s by a readiness event carrying its own coroutine id, whatever happened to the descriptor's interests before. "
        "Half of the history cases add a socket whose read and write directions are waited on by two coroutines at the same time. Non-trivial = at least one wait was woken by a matching readiness event; distinct = (waiters, rounds, interest, never-ready).")

def run(tier, seed, t0):
    cases = cl.run_cases(PID, "c20", seed, tier, 160 if tier == "thorough" else 24, case_timeout=60, jobs=12)
    if tier == "thorough":
        try:
            cases += cl.asan_cases(PID, "c20", seed, 24, binname="loops")
        except vlib.BuildError as e:
            c = vlib.Case(3_000_000); c.engine = "asan"; c.verdict = "inconclusive"; c.sig = "harness/asan-build-failed"; c.detail = str(e)[:300]; cases.append(c)
    return vlib.finish(PID, tier, seed, "exploration", cases, rule=RULE, t0=t0, replay_builder=cl.rb_factory("c20", seed),
                       assumptions=["epoll backend (mio), 64-bit target", "write interest is exercised with one round only: draining a full buffer raises several writable edges"])

replay = cc.replay_factory(PID)
