"""C19 — socket timeout options are tracked per live socket without crashing (exploration, bounded-exhaustive histories)."""
import os
import vlib
from checks import common_core as cc

PID = "C19"
RULE = ("Every history of length 1..L (L=4 quick, 6 thorough) over {hooked setsockopt SO_RCVTIMEO=0, SO_RCVTIMEO=20ms, SO_SNDTIMEO=40ms, query recv/send_time_limit, hooked recv with nothing to read (observes the limit the call really applies), "
        "hooked close + new socket (descriptor number reuse)} on one descriptor slot; batches of histories share a process, so limits cached for a closed descriptor meet the reused number. Model fd -> (rcv,snd) from the history itself, cross-checked with native getsockopt; "
        "limit queries must equal the model (0 => unlimited), the timed-out recv must take about the limit, and the process must survive (abort/panic = violation, the history logged before each step is the replay). "
        "Non-trivial = history with a set and >= 2 steps; distinct = history. "
        "Added: real LD_PRELOAD interposition (wl-hook scenario 6; the hook library does not interpose close): a task on TCP loopback sets SO_RCVTIMEO (20/40/60 ms) through libc, a recv on the empty socket must give up after about that long, "
        "then either the option is cleared to 0 or both ends are closed with libc close and a new connection takes the same numbers; the next recv (native getsockopt says: no limit) must wait for 4 bytes a plain thread writes 150 ms later instead of giving up after the old limit.")

def run(tier, seed, t0):
    L = 6 if tier == "thorough" else 4
    n = sum(6 ** i for i in range(1, L + 1))
    d = cc.build()
    def pol(case, rc, timed_out, tail):
        if timed_out:
            return ("inconclusive", "harness/timeout", tail[-300:])
        h = (case.desc or {}).get("history", [])
        if rc in (-6, 134) or "non-unwinding panic" in tail or "panicked" in tail:
            kind = "set-after-cached" if any("set" in x for x in h) else "other"
            return ("violated", f"{PID}/process-aborted/{kind}", f"history {h}: {tail[-400:]}")
        if rc is not None and rc < 0:
            return ("violated", f"{PID}/process-crashed", f"history {h}: rc={rc}")
        return vlib.default_crash_policy(case, rc, timed_out, tail)
    cases = vlib.fan_out([os.path.join(d, "sys"), "sockopt", "--len", str(L)], n, engine="native", case_timeout=60, crash_policy=pol, jobs=32, shard=max(30, n // 96))
    # the deployed path: libc calls interposed by the preloaded hook library, where close is NOT interposed
    from checks import common_hook as ch
    def hpol(case, rc, timed_out, tail):
        if not timed_out and (rc in (-6, 134) or "panicked" in tail):
            return ("violated", f"{PID}/interposed/process-aborted", tail[-400:])
        return vlib.default_crash_policy(case, rc, timed_out, tail)
    try:
        cases += ch.cases(PID, seed, tier, 10 if tier != "thorough" else 60, crash_policy=hpol)
        if tier == "thorough":
            cases += ch.memcheck_cases(PID, seed, 6)
    except vlib.BuildError as e:
        c = vlib.Case(7_000_000); c.engine = "LD_PRELOAD interposition"; c.verdict = "inconclusive"; c.sig = "harness/hook-dylib-build-failed"; c.detail = str(e); cases.append(c)
    def rb(c):
        if c.idx >= 7_000_000:
            return ch.replay_cmd(c, seed)
        return {"cmd": f"/verif/wl-core/target/release/sys sockopt --len {L} --from {max(0,c.idx-40)} --to {c.idx+1}", "note": "the preceding histories are part of the replay: they leave cached limits behind"}
    return vlib.finish(PID, tier, seed, "exploration", cases, rule=RULE, t0=t0, replay_builder=rb, extra_cov={"exhaustive": True, "history_length": L},
                       assumptions=["options are set through the hooked setsockopt (in a hooked process every libc call is)", "kernel rounds timeouts to its tick; values used are multiples of 4 ms"])

replay = cc.replay_factory(PID)
