"""C23 — stack growth gives the callback room and restores bookkeeping (exploration)."""
import vlib
from checks import common_core as cc

PID = "C23"
RULE = ("Deep recursion (0.2-1.2 MiB of frames, frames 256 B-8 KiB) that asks maybe_grow_with(red_zone, segment_size) at every level, in coroutines (128 KiB stack) and on plain threads (256 KiB stack); three shapes: "
        "plain descent; a panic raised inside a deep growth callback, caught at the top, followed by the same descent again; descent, return half-way, second descent (nested segments popped and re-pushed). "
        "Inside every callback the stack pointer is located (coroutine: stack_infos(); thread: /proc/self/maps) and the room below it must be >= red_zone - (one guard page + 3 KiB); the recursion must return the right value; "
        "a coroutine's stack_infos() must be identical before/after (also after the caught panic); the process must survive (a crash is a violation: the callback was run without room). "
        "Non-trivial = callbacks ran on >= 2 distinct segments; distinct = (where, red zone, segment size, frame, shape, segments used).")

def pol(case, rc, timed_out, tail):
    where = (case.desc or {}).get("where", "?")
    if timed_out:
        return ("inconclusive", "harness/timeout", tail[-300:])
    if rc in (-11, -6, -7, 134, 139) or "overflowed its stack" in tail:
        return ("violated", f"{PID}/{where}/process-crashed-during-deep-recursion", tail[-600:])
    return vlib.default_crash_policy(case, rc, timed_out, tail)

def run(tier, seed, t0):
    cases = cc.simple(PID, "stack", "c23", seed, tier, 6000 if tier == "thorough" else 480, case_timeout=20, crash_policy=pol)
    def rb(c):
        return {"cmd": f"/verif/wl-core/target/release/stack c23 --seed {seed} --from {c.idx} --to {c.idx+1}"}
    from checks import common_hook as ch
    try:
        cases += ch.cases(PID, seed, tier, 6 if tier != "thorough" else 40)
        if tier == "thorough":
            cases += ch.memcheck_cases(PID, seed, 6)
    except vlib.BuildError as e:
        c = vlib.Case(7_000_000); c.engine = "LD_PRELOAD interposition"; c.verdict = "inconclusive"; c.sig = "harness/hook-dylib-build-failed"; c.detail = str(e); cases.append(c)
    return vlib.finish(PID, tier, seed, "exploration", cases, rule=RULE, t0=t0, replay_builder=rb,
                       assumptions=["the runtime counts a segment's guard page as room (its default red zone adds one page for it); the oracle allows for that page",
                                    "the workload itself stays within the red zone between two growth points (frames <= red_zone/4)", "x86-64 Linux"])

replay = cc.replay_factory(PID)
