"""C13 — cancelling a task affects only that task (exploration, incl. one hook-forced schedule)."""
import vlib
from checks import common_loops as cl, common_core as cc

PID = "C13"
RULE = ("One event loop, 3-12 other tasks (instant / busy / delay) around one target that is cancelled (0) while still queued behind a blocker (every other such case with two event loops: the other loop takes the cancelled task over while the waiter is already blocked on the loop it was submitted to), (1) while running, (2) while suspended in a delay, "
        "(3) forced schedule through the `cancel:before_signal` pause hook: the canceller is held between its running-coroutine lookup and the signal until the target has yielded the thread and another task runs there; (4) late cancel: the target was detached (handle dropped before it ran) and has finished, the cancel arrives while its former worker (pool of one) runs or is parked in another task. "
        "start/end stamps per task + join outcomes. Oracle: a target cancelled while queued never starts and its waiter is settled (not still blocked after 3 s, long after everything else finished); every other task starts, ends and joins with its own value. "
        "Cases whose cancel did not land in the intended phase are inconclusive. Distinct = (phase, others, workers).")

def pol(case, rc, timed_out, tail):
    if rc in (-14, -26, -11, -6):  # a stray signal killed the process
        return ("violated", f"{PID}/process-killed-by-cancel-signal", f"rc={rc} {tail[-300:]}")
    return vlib.default_crash_policy(case, rc, timed_out, tail)

def run(tier, seed, t0):
    cases = cl.run_cases(PID, "c13", seed, tier, 400 if tier == "thorough" else 48, case_timeout=60, jobs=12, crash_policy=pol)
    return vlib.finish(PID, tier, seed, "exploration", cases, rule=RULE, t0=t0, replay_builder=cl.rb_factory("c13", seed),
                       assumptions=["single event loop and a single submitting thread, so that the known multi-thread submission defects (C01) do not blur the verdict"])

replay = cc.replay_factory(PID)
