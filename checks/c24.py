"""C24 — a memory fault in a coroutine only fails that coroutine (exploration)."""
import vlib
from checks import common_core as cc

PID = "C24"
RULE = ("A coroutine faults after 0-5 suspends: null write, wild read, runaway recursion on the initial or on a grown segment, null write on a grown segment (all with the stack pointer inside a segment -> 'invalid memory reference'), "
        "or a null write after the stack pointer was moved (inline asm) to a heap buffer, exactly the segment top, bottom-16 (outside -> 'stack overflow'), top-16 or the segment bottom (inside). "
        "Oracle: resume returns Error with exactly the message the stack-pointer position calls for, the coroutine stays failed, healthy coroutines interleaved before and after complete with their own values, the resuming thread keeps working; "
        "a dead process is a violation. Non-trivial = every case; distinct = (fault kind, suspends, healthy-before).")

def pol(case, rc, timed_out, tail):
    if timed_out:
        return ("violated", f"{PID}/fault-handler-never-returned", "the process spun/hung after the fault: " + tail[-300:])
    if rc is not None and rc != 0:
        return ("violated", f"{PID}/process-died-on-coroutine-fault", f"rc={rc} " + tail[-600:])
    return vlib.default_crash_policy(case, rc, timed_out, tail)

def run(tier, seed, t0):
    cases = cc.simple(PID, "stack", "c24", seed, tier, 8000 if tier == "thorough" else 800, case_timeout=60, crash_policy=pol)
    def rb(c):
        return {"cmd": f"/verif/wl-core/target/release/stack c24 --seed {seed} --from {c.idx} --to {c.idx+1}"}
    return vlib.finish(PID, tier, seed, "exploration", cases, rule=RULE, t0=t0, replay_builder=rb,
                       assumptions=["a segment includes its guard page (StackInfo is [limit, base) of the mapping), so ordinary overflows fault 'inside'", "x86-64 Linux; not run under ASan/valgrind (they own SIGSEGV)"])

replay = cc.replay_factory(PID)
