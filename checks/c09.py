"""C09 — delay and cancel requests affect only the coroutine that made them (exploration)."""
import vlib
from checks import common_core as cc

PID = "C09"
RULE = ("2-6 coroutines interleaved on one thread, each yielding with one of {plain suspend, until(ts), cancel, and the same three issued while in a Syscall state (what hooked waits and the SIGVTALRM handler do)}. "
        "Per-yield oracle with no carry-over: plain => Suspend(0); until(ts) => Suspend(ts); cancel => Cancelled; any yield in a Syscall state => that Syscall state, and the next yield on the thread still obeys the first three rules. "
        "Non-trivial = at least one yield was judged right after a syscall-state delay/cancel request; distinct = interleaving fingerprint. The runtime path (a task in a hooked wait followed by a plain-suspending task) is exercised by the C15/C20 workloads.")

def run(tier, seed, t0):
    cases = cc.simple(PID, "coro", "c09", seed, tier, 60000 if tier == "thorough" else 5000)
    def rb(c):
        return {"cmd": f"/verif/wl-core/target/release/coro c09 --seed {seed} --from {c.idx} --to {c.idx+1}"}
    return vlib.finish(PID, tier, seed, "exploration", cases, rule=RULE, t0=t0, replay_builder=rb, assumptions=["single thread per history (requests are thread-local)"])

replay = cc.replay_factory(PID)
