"""C03 — work-steal queues neither lose nor duplicate items (exploration)."""
import os, time
import vlib
from checks import common_pure as cp

PID = "C03"
RULE = ("seeded concurrent programs (2-16 threads, each with its own local queue + the shared queue; ops push/pop local, push/pop shared, and - for the priority queue, in a third of its cases - push into the local queue of the next thread, which is what task submission from arbitrary threads does to an event loop's queue; "
        "capacities 1-256; 4 priority palettes) on the real work_steal.rs / ordered_work_steal.rs. Oracle at quiescence: no id popped twice, "
        "popped U drained == pushed, shared.len() == remaining - occupancy of locals. Engines: native stress, Miri (data-race/UB detector, "
        "-Zmiri-many-seeds), TSan in thorough. A case is non-trivial if items crossed threads AND some local could overflow; distinct = "
        "fingerprint of (kind, threads, per-thread pop-id sequences / final counters) so different interleavings count separately.")

def run(tier, seed, t0):
    thorough = tier == "thorough"
    d = cp.build_native()
    q = os.path.join(d, "queues")
    n_native = 480 if thorough else 64
    cases = vlib.fan_out([q, "c03", "--seed", str(seed), "--tier", tier], n_native, engine="native", case_timeout=150)
    # Miri: small programs, many scheduler seeds
    cp.miri_warm("queues")
    n_miri = 32 if thorough else 6
    seeds = 64 if thorough else 8
    env = {"MIRIFLAGS": f"{cp.MIRIFLAGS_BASE} -Zmiri-many-seeds=0..{seeds}"}
    mc = vlib.fan_out(cp.miri_argv("queues", "c03", seed, tier), n_miri, jobs=min(vlib.NCPU, n_miri), shard=1, engine=f"miri x{seeds} seeds",
                      env=env, case_timeout=900 if thorough else 400, out_via_file=False, multi_end=True,
                      crash_policy=cp.miri_crash_policy(PID), cwd=os.path.join(vlib.VERIF, "wl-pure"))
    for c in mc:
        c.idx += 1_000_000
    cases += mc
    if thorough:
        cases += tsan_cases(seed, tier)
    def rb(c):
        if c.engine.startswith("miri"):
            return {"cmd": f"cd /verif/wl-pure && MIRIFLAGS='{env['MIRIFLAGS']}' cargo +nightly miri run --offline --target-dir target-miri --bin queues -- c03 --seed {seed} --tier {tier} --from {c.idx-1_000_000} --to {c.idx-1_000_000+1}"}
        return {"cmd": f"/verif/wl-pure/target/release/queues c03 --seed {seed} --tier {tier} --from {c.idx} --to {c.idx+1}", "note": "concurrent: repeat a few times"}
    return vlib.finish(PID, tier, seed, "exploration", cases, rule=RULE, t0=t0, replay_builder=rb,
                       assumptions=["each local queue handle is used by one thread (as the statement says)", "Miri runs with Stacked Borrows off: crossbeam-epoch/skiplist trip the aliasing models inside the dependency",
                                    "x86-64 Linux; weak-memory effects only as far as Miri/TSan model them"])

def tsan_cases(seed, tier):
    tdir = os.path.join(vlib.VERIF, "wl-pure", "target-tsan")
    try:
        d = vlib.cargo_build("wl-pure", bins=["queues"], toolchain="nightly", target_dir=tdir,
                             rustflags="-Zsanitizer=thread --cap-lints warn", extra=["-Zbuild-std"], target="x86_64-unknown-linux-gnu")
    except vlib.BuildError as e:
        c = vlib.Case(2_000_000); c.engine = "tsan"; c.verdict = "inconclusive"; c.sig = "harness/tsan-build-failed"; c.detail = str(e)
        return [c]
    def pol(case, rc, timed_out, tail):
        if rc == 66 or "ThreadSanitizer: data race" in tail:
            site = ""
            for line in tail.splitlines():
                if "work_steal.rs" in line:
                    site = line.strip().split("/")[-1].split(":")[0]; break
            return ("violated", f"{PID}/tsan/data-race/{site or 'unknown'}", tail[-1500:])
        return vlib.default_crash_policy(case, rc, timed_out, tail)
    cs = vlib.fan_out([os.path.join(d, "queues"), "c03", "--seed", str(seed + 7), "--tier", "quick"], 32, engine="tsan",
                      env={"TSAN_OPTIONS": "halt_on_error=1 exitcode=66"}, case_timeout=300, crash_policy=pol)
    for c in cs:
        c.idx += 2_000_000
    return cs

def replay(r):
    import subprocess
    cp.build_native()
    print("replaying:", r["replay"]["cmd"])
    p = subprocess.run(r["replay"]["cmd"], shell=True, capture_output=True, text=True)
    print(p.stdout[-3000:], p.stderr[-2000:])
    recs = vlib.parse_records(p.stdout)
    bad = [x for x in recs if x.get("t") == "end" and x.get("verdict") == "violated"]
    if bad or p.returncode not in (0,):
        print(f"VIOLATION property={PID} replay={r.get('signature')}")
        return 1
    return 0
