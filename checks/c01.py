"""C01 — every submitted task runs exactly once (exploration)."""
import vlib
from checks import common_loops as cl, common_core as cc

PID = "C01"
RULE = ("One process per configuration drawn from event loops {1,2,4,8} x submitter threads {1,2,4,16} x tasks per submitter {200..6000} x priority mix (constant / 5 levels / random i64 incl. MIN,MAX) x body (instant, suspend, 1 ms delay, busy) x pool max_size {1,4,256}; "
        "bursts exceed the local queue capacity (256) so overflow-to-global, every-61st-pop and steal paths are exercised. Every task bumps a per-uid atomic counter as its first statement. A watchdog measures the CPU time each submitter spends inside one submit_task call (C04's clause). "
        "Oracle after all submitters returned: every uid has count 1; a count > 1 is a duplicate; 'stranded' = uids still at 0 while no new execution happened for 3 s although heartbeat probe tasks submitted meanwhile do execute (the runtime keeps scheduling). At a stall the runtime's own threads are sampled from /proc/self/task for 400 ms (voluntary context switches, CPU time): "
        "loop threads that spin without ever sleeping = wedged (the known coroutine-migration defect, only with two or more loops); stranded tasks while every loop thread keeps cycling are a different signature. Submissions the runtime refused (error handle) are not counted as lost. "
        "A submitter stuck inside submit_task makes the case inconclusive here and is reported by C04. Signatures carry the configuration class (one-loop-one-submitter / one-submitter-many-loops / many-submitters). Non-trivial = >= 2 submitters and bursts > 256; distinct = configuration.")

def run(tier, seed, t0):
    cases = cl.run_cases(PID, "c01", seed, tier, 160 if tier == "thorough" else 24, case_timeout=200, jobs=6)
    if tier == "thorough":
        try:
            cases += cl.asan_cases(PID, "c01", seed, 24, binname="loops")
        except vlib.BuildError as e:
            c = vlib.Case(3_000_000); c.engine = "asan"; c.verdict = "inconclusive"; c.sig = "harness/asan-build-failed"; c.detail = str(e)[:300]; cases.append(c)
    return vlib.finish(PID, tier, seed, "exploration", cases, rule=RULE, t0=t0, replay_builder=cl.rb_factory("c01", seed),
                       assumptions=["sampled schedules", "3 s without a single new execution while probes run = stranded (bounded-progress restatement)"], min_conclusive=2)

replay = cc.replay_factory(PID)
