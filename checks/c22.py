"""C22 — preemption interrupts long-running coroutines, never syscalls (exploration; `preemptive` feature build)."""
import vlib
from checks import common_loops as cl, common_core as cc

PID = "C22"
RULE = ("Built with open-coroutine-core's `preemptive` feature; one process per case. (0) a chain of 1-3 busy coroutines on one thread, each spinning without yielding until the next link has run, ending in a trivial sibling: every link must finish, and no busy coroutine may burn "
        "more than 500 ms of thread CPU time per link before its sibling ran (the slice is 10 ms); (1) a coroutine that marks a Syscall state and spins 60-150 ms of CPU must not be suspended (no Syscall->Suspend transition, the ready sibling runs only afterwards); race variant of (1): 150 rounds in which the coroutine computes 9.8-11.2 ms in the Running state and enters the call right when its slice ends, so that a preemption signal already on its way finds it inside the call - an equal-priority sibling that stamps the time whenever it gets the thread must never run during a stay inside the call, and every stay must end (with the handler's not-Running guard removed this crashes or hangs within seconds); "
        "(2) 1-4 coroutines compute integer + floating-point checksums for 3-12 M iterations while being preempted; results must equal a plain-thread reference; (3) 4-12 scheduling threads each run busy and yielding coroutines for 3 s: the process must survive and every result must be right. "
        "A recording listener counts preemptions (Running->Suspend not requested by the body); a case without a single preemption is inconclusive. Distinct = (scenario, variant).")

def pol(case, rc, timed_out, tail):
    sc = str((case.desc or {}).get("scenario", ""))
    many = "many scheduling threads" in sc
    if timed_out:
        return ("violated", f"{PID}/process-hung/{'many-scheduling-threads' if many else 'single-thread'}", tail[-300:])
    if rc is not None and rc != 0:
        return ("violated", f"{PID}/process-died/{'many-scheduling-threads' if many else 'single-thread'}", f"rc={rc} {tail[-500:]}")
    return vlib.default_crash_policy(case, rc, timed_out, tail)

def run(tier, seed, t0):
    cases = cl.run_cases(PID, "c22", seed, tier, 240 if tier == "thorough" else 32, case_timeout=60, jobs=8, crash_policy=pol, features=["preemptive"], binname="preempt")
    return vlib.finish(PID, tier, seed, "exploration", cases, rule=RULE, t0=t0, replay_builder=cl.rb_factory("c22", seed, binname="preempt", feat="-preemptive"),
                       assumptions=["Linux x86-64, SIGURG based preemption", "CPU-time bounds (not wall time) so machine load cannot raise an alarm"])

replay = cc.replay_factory(PID)
