"""C18 — non-blocking sockets keep non-blocking semantics under the hook (exploration)."""
import os
import vlib
from checks import common_sys as cs, common_core as cc

PID = "C18"
RULE = ("(a) real libc underneath (fn_ptr = None): read/recv/recvfrom/readv/recvmsg on an empty socket, write/send/sendto/writev/sendmsg on a socket whose send buffer was filled, accept on a listener without pending connection; "
        "caller-set O_NONBLOCK => -1/EAGAIN in < 400 ms (the peer only acts after 700 ms, so waiting is distinguishable from returning); blocking caller => the call completes once the peer acts; F_GETFL identical before/after in every outcome; plain thread and coroutine. connect to {listening unix socket, unix path nobody listens on, UDP peer, TCP listener on loopback (the non-blocking connect underneath reports EINPROGRESS and the call waits for writability), TCP port nobody listens on (ECONNREFUSED through SO_ERROR)}: blocking callers get 0 / the refusal, non-blocking callers may be told EINPROGRESS, mode unchanged. "
        "(b) the scripted-kernel grid of C16/C17 with the C18 oracle: on a caller-non-blocking descriptor the first would-block must end the call, and F_GETFL is unchanged for every outcome (success, partial, EOF, error, timeout). "
        "Non-trivial = every case; distinct = (call, context, mode[, script]).")

def run(tier, seed, t0):
    thorough = tier == "thorough"
    d = cc.build()
    def pol(case, rc, timed_out, tail):
        if timed_out:
            return ("violated", f"{PID}/{(case.desc or {}).get('op','?')}/call-never-returned", "no answer: " + tail[-300:])
        return vlib.default_crash_policy(case, rc, timed_out, tail)
    n = 240 * (4 if thorough else 1)
    cases = vlib.fan_out([os.path.join(d, "sys"), "nonblock", "--seed", str(seed)], n, engine="native real-libc", case_timeout=40, crash_policy=pol, jobs=16, shard=max(4, n // 32))
    io, lmax, grid = cs.io_cases(PID, seed, tier, "C18")
    for c in io:
        c.idx += 1_000_000
    cases += io
    base = cs.io_replay_builder("C18", seed, tier, lmax)
    def rb(c):
        if c.idx >= 1_000_000:
            c2 = vlib.Case(c.idx - 1_000_000); return base(c2)
        return {"cmd": f"/verif/wl-core/target/release/sys nonblock --seed {seed} --from {c.idx} --to {c.idx+1}"}
    from checks import common_hook as ch
    try:
        cases += ch.cases(PID, seed, tier, 4 if tier != "thorough" else 20)
        if tier == "thorough":
            cases += ch.memcheck_cases(PID, seed, 6)
    except vlib.BuildError as e:
        c = vlib.Case(7_000_000); c.engine = "LD_PRELOAD interposition"; c.verdict = "inconclusive"; c.sig = "harness/hook-dylib-build-failed"; c.detail = str(e); cases.append(c)
    return vlib.finish(PID, tier, seed, "exploration", cases, rule=RULE, t0=t0, replay_builder=rb,
                       assumptions=["unix stream sockets on this kernel", "400 ms threshold sits 100x above a healthy EAGAIN return and well below the 700 ms at which the peer acts"])

replay = cc.replay_factory(PID)
