"""Checks built on wl-core's `loops` binary: one process per case (EventLoops::init is once per process)."""
import os
import vlib
from checks import common_core as cc

def run_cases(pid, sub, seed, tier, n, *, case_timeout=120, jobs=16, crash_policy=None, offset=0, features=None, engine="native (one process per configuration)", binname="loops"):
    d = cc.build(features)
    argv = [os.path.join(d, binname), sub, "--seed", str(seed), "--tier", tier]
    cs = vlib.fan_out(argv, n, engine=engine, case_timeout=case_timeout, jobs=jobs, shard=1, crash_policy=crash_policy, confirm_timing=True)
    for c in cs:
        c.idx += offset
    return cs

def rb_factory(sub, seed, binname="loops", feat=""):
    def rb(c):
        i = c.idx % 1_000_000
        if (c.engine or "").startswith("asan"):
            return {"cmd": f"ASAN_OPTIONS={cc.ASAN_ENV['ASAN_OPTIONS']} /verif/wl-core/target-asan/x86_64-unknown-linux-gnu/release/{binname} {sub} --seed {seed + 5} --tier thorough --from {i} --to {i+1}"}
        return {"cmd": f"/verif/wl-core/target{feat}/release/{binname} {sub} --seed {seed} --from {i} --to {i+1}"}
    return rb


def asan_cases(pid, sub, seed, n, *, binname="loops", offset=3_000_000, case_timeout=200, jobs=6):
    """Thorough-tier overlay: the same one-process-per-case workload and oracles, rebuilt under AddressSanitizer (nightly).
    Timing verdicts of this overlay are not believed (ASan slows the runtime 2-4x): a late-type violation becomes inconclusive;
    everything else, and any ASan report, counts."""
    d = cc.build_asan(bins=[binname])
    argv = [os.path.join(d, binname), sub, "--seed", str(seed + 5), "--tier", "thorough"]
    cs = vlib.fan_out(argv, n, engine="asan (one process per configuration)", case_timeout=case_timeout, jobs=jobs, shard=1, env=cc.ASAN_ENV, crash_policy=cc.asan_policy(pid))
    known = {k["signature"] for k in vlib.load_known() if k.get("status") == "known"}
    for c in cs:
        if c.verdict == "violated" and vlib.TIMING_SIG.search(c.sig or "") and "/asan/" not in (c.sig or "") and c.sig not in known:
            c.detail = f"{c.sig}: {c.detail}"
            c.verdict, c.sig, c.nontrivial = "inconclusive", "timing-verdict-under-asan-not-believed", False
        c.idx += offset
        c.fp = (c.fp or "") + "#asan"
    return cs
