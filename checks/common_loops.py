"""Checks built on wl-core's `loops` binary: one process per case (EventLoops::init is once per process)."""
import os
import vlib
from checks import common_core as cc

def run_cases(pid, sub, seed, tier, n, *, case_timeout=120, jobs=16, crash_policy=None, offset=0, features=None, engine="native (one process per configuration)", binname="loops"):
    d = cc.build(features)
    argv = [os.path.join(d, binname), sub, "--seed", str(seed), "--tier", tier]
    cs = vlib.fan_out(argv, n, engine=engine, case_timeout=case_timeout, jobs=jobs, shard=1, crash_policy=crash_policy, confirm_timing=True)
    for c in cs:
        c.idx += offset
    return cs

def rb_factory(sub, seed, binname="loops", feat=""):
    def rb(c):
        i = c.idx % 1_000_000
        return {"cmd": f"/verif/wl-core/target{feat}/release/{binname} {sub} --seed {seed} --from {i} --to {i+1}"}
    return rb
