"""Real LD_PRELOAD interposition of the hook dylib built from /repo/hook (wl-hook/hooked). One case per process."""
import os
import vlib

SCENARIO = {"C15": 0, "C14": 1, "C02": 2, "C18": 3, "C23": 4}

def build():
    tdir = os.path.join(vlib.VERIF, "wl-hook", "target-dylib")
    import subprocess, time
    t0 = time.time()
    p = subprocess.run(["cargo", "build", "--release", "-p", "open-coroutine-hook", "--offline", "--manifest-path", "/repo/Cargo.toml", "--target-dir", tdir],
                       env=vlib.BASE_ENV, stdout=subprocess.PIPE, stderr=subprocess.STDOUT, text=True, timeout=3600)
    if p.returncode != 0:
        vlib.log(p.stdout[-4000:])
        raise vlib.BuildError("building the hook dylib from /repo/hook failed")
    vlib.log(f"[build] hook dylib ok in {time.time()-t0:.1f}s")
    d = vlib.cargo_build("wl-hook")
    return os.path.join(tdir, "release", "libopen_coroutine_hook.so"), os.path.join(d, "hooked")

def cases(pid, seed, tier, n, offset=7_000_000):
    so, binp = build()
    sc = SCENARIO[pid]
    out = []
    # case indices with the right residue: 5*k + sc
    idxs = [5 * k + sc for k in range(n)]
    def run1(i):
        return vlib.run_range([binp, "--seed", str(seed)], i, i + 1, engine="LD_PRELOAD interposition", env={"LD_PRELOAD": so}, case_timeout=60)
    def one(i):
        cs = run1(i)
        for c in cs:
            # a "too late" verdict must survive two reruns (these run four at a time next to everything else)
            if c.verdict == "violated" and vlib.TIMING_SIG.search(c.sig or ""):
                again = [run1(i), run1(i)]
                if not all(a and a[0].verdict == "violated" and a[0].sig == c.sig for a in again):
                    c.detail = f"first run: {c.sig}: {c.detail}; not reproduced when rerun"
                    c.verdict, c.sig, c.nontrivial = "inconclusive", "timing-violation-not-reproduced-when-rerun-alone", False
        return cs
    from concurrent.futures import ThreadPoolExecutor
    with ThreadPoolExecutor(max_workers=4) as ex:
        for cs in ex.map(one, idxs):
            for c in cs:
                if c.verdict == "violated" and not c.sig.startswith(pid + "/"):
                    # belongs to another property's statement; that property's own check reports it
                    c.verdict, c.detail, c.sig = "held", f"(other property flagged: {c.sig})", ""
                c.idx += offset
                out.append(c)
    return out

def replay_cmd(c, seed, offset=7_000_000):
    i = c.idx - offset
    return {"cmd": f"LD_PRELOAD=/verif/wl-hook/target-dylib/release/libopen_coroutine_hook.so /verif/wl-hook/target/release/hooked --seed {seed} --from {i} --to {i+1} --out /dev/stdout 2>/dev/null | grep '@@'"}
