"""Real LD_PRELOAD interposition of the hook dylib built from /repo/hook (wl-hook/hooked). One case per process."""
import os
import vlib

SCENARIO = {"C15": 0, "C14": 1, "C02": 2, "C18": 3, "C23": 4, "C16": 5, "C19": 6}
NSC = 7

def build():
    tdir = os.path.join(vlib.VERIF, "wl-hook", "target-dylib")
    import subprocess, time
    t0 = time.time()
    p = subprocess.run(["cargo", "build", "--release", "-p", "open-coroutine-hook", "--offline", "--manifest-path", "/repo/Cargo.toml", "--target-dir", tdir],
                       env=vlib.BASE_ENV, stdout=subprocess.PIPE, stderr=subprocess.STDOUT, text=True, timeout=3600)
    if p.returncode != 0:
        vlib.log(p.stdout[-4000:])
        raise vlib.BuildError("building the hook dylib from /repo/hook failed")
    vlib.log(f"[build] hook dylib ok in {time.time()-t0:.1f}s")
    d = vlib.cargo_build("wl-hook")
    return os.path.join(tdir, "release", "libopen_coroutine_hook.so"), os.path.join(d, "hooked")

def cases(pid, seed, tier, n, offset=7_000_000, crash_policy=None):
    so, binp = build()
    sc = SCENARIO[pid]
    out = []
    # case indices with the right residue: NSC*k + sc
    idxs = [NSC * k + sc for k in range(n)]
    def run1(i):
        return vlib.run_range([binp, "--seed", str(seed)], i, i + 1, engine="LD_PRELOAD interposition", env={"LD_PRELOAD": so}, case_timeout=60, crash_policy=crash_policy)
    def one(i):
        cs = run1(i)
        for c in cs:
            # a "too late" verdict must survive two reruns (these run four at a time next to everything else)
            if c.verdict == "violated" and vlib.TIMING_SIG.search(c.sig or ""):
                again = [run1(i), run1(i)]
                if not all(a and a[0].verdict == "violated" and a[0].sig == c.sig for a in again):
                    c.detail = f"first run: {c.sig}: {c.detail}; not reproduced when rerun"
                    c.verdict, c.sig, c.nontrivial = "inconclusive", "timing-violation-not-reproduced-when-rerun-alone", False
        return cs
    from concurrent.futures import ThreadPoolExecutor
    with ThreadPoolExecutor(max_workers=4) as ex:
        for cs in ex.map(one, idxs):
            for c in cs:
                if c.verdict == "violated" and not c.sig.startswith(pid + "/"):
                    # belongs to another property's statement; that property's own check reports it
                    c.verdict, c.detail, c.sig = "held", f"(other property flagged: {c.sig})", ""
                c.idx += offset
                out.append(c)
    return out

def memcheck_cases(pid, seed, n, offset=8_000_000):
    """Thorough-tier overlay: the same LD_PRELOAD scenarios under valgrind memcheck (the hook cdylib cannot be rebuilt under ASan from
    here). A memcheck error ends the process with exit code 9 and is a violation of its own kind; timing verdicts produced under
    valgrind (10-30x slower) are not believed."""
    import shutil, re
    if not shutil.which("valgrind"):
        c = vlib.Case(offset); c.engine = "valgrind memcheck + LD_PRELOAD"; c.verdict = "inconclusive"; c.sig = "harness/valgrind-not-installed"; return [c]
    so, binp = build()
    sc = SCENARIO[pid]
    def pol(case, rc, timed_out, tail):
        if rc == 9 or re.search(r"^==\d+== (Invalid|Conditional jump|Use of uninitialised|Mismatched|Source and destination overlap|Jump to the invalid)", tail, re.M):
            m = re.search(r"^==\d+== (Invalid read|Invalid write|Invalid free|Conditional jump|Use of uninitialised|Mismatched free|Source and destination overlap|Jump to the invalid address)", tail, re.M)
            kind = (m.group(1) if m else "error").lower().replace(" ", "-")
            return ("violated", f"{pid}/memcheck/{kind}", tail[-1500:])
        return vlib.default_crash_policy(case, rc, timed_out, tail)
    argv = ["valgrind", "-q", "--error-exitcode=9", "--trace-children=yes", "--leak-check=no", "env", f"LD_PRELOAD={so}", binp, "--seed", str(seed + 3)]
    out = []
    from concurrent.futures import ThreadPoolExecutor
    def one(i):
        return vlib.run_range(argv, i, i + 1, engine="valgrind memcheck + LD_PRELOAD", case_timeout=300, crash_policy=pol)
    with ThreadPoolExecutor(max_workers=4) as ex:
        for cs in ex.map(one, [NSC * k + sc for k in range(n)]):
            for c in cs:
                if c.verdict == "violated" and "/memcheck/" not in (c.sig or ""):
                    if not c.sig.startswith(pid + "/") or vlib.TIMING_SIG.search(c.sig or ""):
                        c.detail = f"{c.sig}: {c.detail}"
                        c.verdict, c.sig, c.nontrivial = "inconclusive", "verdict-under-valgrind-not-believed", False
                c.idx += offset
                c.fp = (c.fp or "") + "#memcheck"
                out.append(c)
    return out

def replay_cmd(c, seed, offset=7_000_000):
    if c.idx >= 8_000_000:
        i = c.idx - 8_000_000
        return {"cmd": f"valgrind -q --error-exitcode=9 --trace-children=yes --leak-check=no env LD_PRELOAD=/verif/wl-hook/target-dylib/release/libopen_coroutine_hook.so /verif/wl-hook/target/release/hooked --seed {seed + 3} --from {i} --to {i+1} --out /dev/stdout"}
    i = c.idx - offset
    return {"cmd": f"LD_PRELOAD=/verif/wl-hook/target-dylib/release/libopen_coroutine_hook.so /verif/wl-hook/target/release/hooked --seed {seed} --from {i} --to {i+1} --out /dev/stdout 2>/dev/null | grep '@@'"}
