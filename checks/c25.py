"""C25 — coroutine-local storage is private, map-like and released with the coroutine (exploration)."""
import os
import vlib
from checks import common_pure as cp

PID = "C25"
RULE = ("Seeded histories (<= 200 ops native, <= 30 under Miri) of put/get/get_mut/remove over 5 keys x 1-3 storages x 3 value types of different size, every value carrying a unique id and a drop counter. "
        "Oracle: per-storage HashMap model for every return value (so a key of one storage is invisible through another), payload integrity of returned values, and after the owner is dropped "
        "every created value has been dropped exactly once. Engines: native on the real local.rs, Miri (use-after-free / double free / type confusion as UB), and real coroutines in wl-core "
        "(storage reached through the coroutine handle and from inside the body; owner = the Coroutine). Non-trivial = values were still stored at drop time AND some put/remove returned a value; distinct = history fingerprint.")

def run(tier, seed, t0):
    thorough = tier == "thorough"
    d = cp.build_native()
    b = os.path.join(d, "local")
    cases = vlib.fan_out([b, "hist", "--seed", str(seed)], 40000 if thorough else 3000, engine="native", case_timeout=60)
    cp.miri_warm("local")
    env = {"MIRIFLAGS": "-Zmiri-disable-stacked-borrows"}  # leak checker ON here: a leaked stored value is a finding
    n = 256 if thorough else 32
    m = vlib.fan_out(cp.miri_argv("local", "hist", seed + 11, tier), n, jobs=16, shard=max(1, n // 16), engine="miri", env=env, case_timeout=600,
                     out_via_file=False, crash_policy=miri_pol, cwd=os.path.join(vlib.VERIF, "wl-pure"))
    for c in m:
        c.idx += 1_000_000
    cases += m
    try:
        from checks import common_core as cc
        cases += cc.c25_coroutine_cases(seed, tier)
    except ImportError:
        pass
    def rb(c):
        if c.idx >= 2_000_000: return {"cmd": f"/verif/wl-core/target/release/coro c25 --seed {seed} --from {c.idx-2_000_000} --to {c.idx-2_000_000+1}"}
        if c.idx >= 1_000_000: return {"cmd": f"cd /verif/wl-pure && MIRIFLAGS='-Zmiri-disable-stacked-borrows' cargo +nightly miri run --offline --target-dir target-miri --bin local -- hist --seed {seed+11} --from {c.idx-1_000_000} --to {c.idx-1_000_000+1}"}
        return {"cmd": f"/verif/wl-pure/target/release/local hist --seed {seed} --from {c.idx} --to {c.idx+1}"}
    return vlib.finish(PID, tier, seed, "exploration", cases, rule=RULE, t0=t0, replay_builder=rb,
                       assumptions=["a key is always used with one value type (the API is type-erased by design; mixing types under one key is outside the statement)"])

def miri_pol(case, rc, timed_out, tail):
    if "memory leaked" in tail or "leaked memory" in tail:
        return ("violated", f"{PID}/miri/memory-leaked", tail[-1200:])
    return cp.miri_crash_policy(PID)(case, rc, timed_out, tail)

replay = cp.generic_replay(PID, cp.build_native)
