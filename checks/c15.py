"""C15 — a coroutine blocked in a hooked call does not stall its event loop (exploration)."""
import vlib
from checks import common_loops as cl, common_core as cc

PID = "C15"
RULE = ("One event loop, max_size >= N. (0) N in {8,16,32} tasks each in a hooked timed wait (usleep/nanosleep, poll, select, or a mix) of d in {100,200} ms plus one computing sibling that yields in a loop: all must finish within max(2d, d+300 ms + noise) although serial execution needs N*d, "
        "the sibling's progress counter must advance meanwhile, the median call must not come back more than 40 ms (+noise) late, and the loop thread must not sit still (> 8 ms between two steps of the always-runnable sibling) for N/2 or more times - healthy runs show 0 ms lateness and 0 stalls, so wake-ups that are serialised (each returning call holding the loop thread) stand out although the total stays below the coarse bound; these are only judged while the in-process load monitor saw no bad sample; one case per 18 is a burst of 600 tasks x 500 ms (more than the local queue holds): the last task must enter its call within d/2 of the first one, i.e. queued tasks must not wait for somebody else's blocked worker; "
        "(1) the same with tasks parked in a hooked socket call that runs into the socket's own timeout d: recv on an empty socket, send on a full socket, accept on an idle listener; (2) a 50 ms task submitted while the only live worker is parked in a 1.5 s hooked sleep must finish in < 650 ms. "
        "The bound is a ratio/absolute slack far from both healthy (about d) and faulty (N*d or the sibling's remaining sleep) behaviour. Non-trivial = N*d > 2*bound (or scenario 2); distinct = (scenario, N, d). Calls go through the core entry points the interposed libc symbols forward to.")

def run(tier, seed, t0):
    cases = cl.run_cases(PID, "c15", seed, tier, 96 if tier == "thorough" else 18, case_timeout=60, jobs=6)
    from checks import common_hook as ch
    try:
        cases += ch.cases(PID, seed, tier, 6 if tier != "thorough" else 30)
        if tier == "thorough":
            cases += ch.memcheck_cases(PID, seed, 6)
    except vlib.BuildError as e:
        c = vlib.Case(7_000_000); c.engine = "LD_PRELOAD interposition"; c.verdict = "inconclusive"; c.sig = "harness/hook-dylib-build-failed"; c.detail = str(e); cases.append(c)
    return vlib.finish(PID, tier, seed, "exploration", cases, rule=RULE, t0=t0, replay_builder=cl.rb_factory("c15", seed),
                       assumptions=["at most 6 configurations run at once so that the machine's own scheduling does not serialise the sleepers", "dylib interposition itself (hook crate) is not exercised, the core entry points it forwards to are"])

replay = cc.replay_factory(PID)
