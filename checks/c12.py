"""C12 — pool lifecycle: stop rejects new work and settles every waiter (exploration)."""
import vlib
from checks import common_loops as cl, common_core as cc

PID = "C12"
RULE = ("(a) runtime level, one process per case: 4-40 tasks (0/30/60 % of them suspended in 50-300 ms delays) are accepted, then EventLoops::stop(10 s) runs while a second thread keeps submitting; oracle: if stop reports success every task accepted before it began has run, "
        "submissions made after stop returned are rejected, submissions accepted during the stop also ran, stop does not time out. (b) standalone CoroutinePool histories over submit / schedule / wait (second thread) / cancel / stop: observed state sequence is a prefix of "
        "Running->Stopping->Stopped, submissions after stop began fail, a waiter on a task that will never run returns an error within 1 s of stop returning instead of sleeping out its own timeout. Non-trivial = some submissions were rejected and some tasks were suspended at stop time; distinct = configuration.")

def run(tier, seed, t0):
    cases = cl.run_cases(PID, "c12", seed, tier, 300 if tier == "thorough" else 36, case_timeout=90, jobs=12)
    try:
        cases += cl.run_cases(PID, "c12", seed, tier, 3000 if tier == "thorough" else 300, case_timeout=60, jobs=16, offset=1_000_000, binname="pool")
    except Exception as e:  # pool binary not present yet
        vlib.log(f"pool-level part skipped: {e}")
    def rb(c):
        if c.idx >= 1_000_000:
            return {"cmd": f"/verif/wl-core/target/release/pool c12 --seed {seed} --from {c.idx-1_000_000} --to {c.idx-1_000_000+1}"}
        return {"cmd": f"/verif/wl-core/target/release/loops c12 --seed {seed} --from {c.idx} --to {c.idx+1}"}
    return vlib.finish(PID, tier, seed, "exploration", cases, rule=RULE, t0=t0, replay_builder=rb,
                       assumptions=["the runtime-level part uses one submitting thread at a time (see C01 known findings)"])

replay = cc.replay_factory(PID)
