"""C06 — shared work is not starved by local work; idle locals find work (exploration, enumerated configurations)."""
import os
import vlib
from checks import common_pure as cp

PID = "C06"
ENUM = 4 * 201 * 2 + 4 * 16 * 2 * 16  # covers every (phi, x-priority, kind) and every (capacity, where, items, kind) used by the case decoder
RULE = ("(a) a local queue kept non-empty (one push per pop, never overflowing); item X placed alone in the shared queue after phi in 0..200 prior pops; "
        "count pops until X is returned, must be <= 61; both queue kinds; X of highest and lowest priority. (b) an empty local with 1..cap items waiting in a sibling "
        "or in the shared queue (cap 1..16): pop must not return None. (c) seeded: a local that siblings emptied by stealing, then work appears in the sibling: "
        "pop must not return None. (a),(b) are enumerated completely over the stated grid; non-trivial = every case (each is a distinct configuration); distinct = configuration.")

def run(tier, seed, t0):
    thorough = tier == "thorough"
    d = cp.build_native()
    q = os.path.join(d, "queues")
    extra = 20000 if thorough else 1500
    n = ENUM + extra
    cases = vlib.fan_out([q, "c06", "--seed", str(seed), "--tier", tier, "--enumerated", str(ENUM)], n, engine="native", case_timeout=60)
    def rb(c):
        return {"cmd": f"/verif/wl-pure/target/release/queues c06 --seed {seed} --tier {tier} --enumerated {ENUM} --from {c.idx} --to {c.idx+1}"}
    return vlib.finish(PID, tier, seed, "exploration", cases, rule=RULE, t0=t0, replay_builder=rb,
                       extra_cov={"enumerated_grid_cases": ENUM, "exhaustive": False},
                       assumptions=["sequential histories (the quantifier is over histories)", "'within 61 pops' is read for an item that is alone in the shared queue"])

replay = cp.generic_replay(PID, cp.build_native)
