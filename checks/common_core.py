"""Helpers for checks built on wl-core (the real open-coroutine-core crate, path dependency on /repo/core)."""
import os, subprocess
import vlib

def build(features=None, bins=None):
    tdir = os.path.join(vlib.VERIF, "wl-core", "target" + ("-" + "-".join(features) if features else ""))
    return vlib.cargo_build("wl-core", features=features, target_dir=tdir, bins=bins)

def build_asan(bins=None, features=None):
    tdir = os.path.join(vlib.VERIF, "wl-core", "target-asan")
    return vlib.cargo_build("wl-core", bins=bins, features=features, toolchain="nightly", target_dir=tdir,
                            rustflags="-Zsanitizer=address -Cforce-frame-pointers=yes --cap-lints warn", target="x86_64-unknown-linux-gnu")

ASAN_ENV = {"ASAN_OPTIONS": "detect_leaks=0:halt_on_error=1:abort_on_error=1:detect_stack_use_after_return=0"}

def asan_policy(pid):
    def pol(case, rc, timed_out, tail):
        if "AddressSanitizer" in tail:
            kind = "unknown"
            for k in ("heap-use-after-free", "heap-buffer-overflow", "stack-buffer-overflow", "stack-use-after-scope", "global-buffer-overflow", "double-free", "SEGV", "use-after-poison"):
                if k in tail:
                    kind = k; break
            site = ""
            for line in tail.splitlines():
                if "/repo/" in line and " in " in line:
                    site = line.split("/repo/")[-1].split(":")[0]; break
            return ("violated", f"{pid}/asan/{kind}/{site or 'unknown-site'}", tail[-1500:])
        return vlib.default_crash_policy(case, rc, timed_out, tail)
    return pol

def simple(pid, binname, sub, seed, tier, n, *, features=None, engine="native", case_timeout=60, offset=0, crash_policy=None, extra=None, jobs=None, shard=None, env=None, stats=None):
    d = build(features)
    argv = [os.path.join(d, binname), sub, "--seed", str(seed), "--tier", tier] + list(extra or [])
    cs = vlib.fan_out(argv, n, engine=engine, case_timeout=case_timeout, crash_policy=crash_policy, jobs=jobs, shard=shard, env=env, stats=stats, confirm_timing=True)
    for c in cs:
        c.idx += offset
    return cs

def c25_coroutine_cases(seed, tier):
    return simple("C25", "coro", "c25", seed, tier, 4000 if tier == "thorough" else 400, engine="native-real-coroutines", offset=2_000_000)

def replay_factory(pid):
    def replay(r):
        build()
        cmd = r["replay"]["cmd"]
        print("replaying:", cmd)
        p = subprocess.run(cmd, shell=True, capture_output=True, text=True, timeout=3600, env=dict(vlib.BASE_ENV, **r["replay"].get("env", {})))
        out = p.stdout + p.stderr
        print(out[-3000:])
        bad = [x for x in vlib.parse_records(out) if x.get("t") == "end" and x.get("verdict") == "violated"]
        if bad or p.returncode != 0:
            print(f"VIOLATION property={pid} replay={r.get('signature')}")
            return 1
        return 0
    return replay
