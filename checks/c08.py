"""C08 — values and panics cross the coroutine boundary faithfully (exploration)."""
import os
import vlib
from checks import common_core as cc

PID = "C08"
RULE = ("Coroutine<u64,u64,u64> bodies with 0-64 suspend points; unique 64-bit payloads both ways. Oracle: sequence received inside == sequence passed to resume_with; each yielded value is the one reported by that resume "
        "(with wake-up time 0); the return value is reported once and unchanged by later resumes, which run no user code; a panic (&'static str, formatted String, non-string payload) is reported as Error carrying the message, "
        "the resumer is not unwinding; optionally a listener that panics in every callback and another coroutine parked in a delay on the same thread. Non-trivial = >= 1 yield; distinct = (yields, ending, parked sibling, panicking listener).")

def run(tier, seed, t0):
    thorough = tier == "thorough"
    cases = cc.simple(PID, "coro", "c08", seed, tier, 40000 if thorough else 4000)
    if thorough:
        d = cc.build_asan(bins=["coro"])
        a = vlib.fan_out([os.path.join(d, "coro"), "c08", "--seed", str(seed + 5), "--tier", tier], 4000, engine="asan", env=cc.ASAN_ENV, case_timeout=120, crash_policy=cc.asan_policy(PID))
        for c in a: c.idx += 10_000_000
        cases += a
    def rb(c):
        if c.idx >= 10_000_000: return {"cmd": f"/verif/wl-core/target-asan/x86_64-unknown-linux-gnu/release/coro c08 --seed {seed+5} --from {c.idx-10_000_000} --to {c.idx-10_000_000+1}", "env": cc.ASAN_ENV}
        return {"cmd": f"/verif/wl-core/target/release/coro c08 --seed {seed} --from {c.idx} --to {c.idx+1}"}
    return vlib.finish(PID, tier, seed, "exploration", cases, rule=RULE, t0=t0, replay_builder=rb, assumptions=["panic payloads that are neither &str nor String have no message to carry"])

replay = cc.replay_factory(PID)
