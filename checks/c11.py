"""C11 — pool worker count is exact and bounded (exploration)."""
import vlib
from checks import common_loops as cl, common_core as cc

PID = "C11"
RULE = ("Standalone CoroutinePool (min 0, max in {1,2,4,8,16}, keep-alive 0/5 ms), one process per case: 1-24 tasks with generated programs (suspends, 5-60 ms delays, return or panic), cancel requests for queued / suspended / finished tasks issued between scheduling passes. "
        "The `co_new`/`co_drop` hook keeps a registry of live coroutines whose name carries the pool's prefix. Oracle at every quiescent point (after each pass): get_running_size() == live workers, <= max (also sampled from inside tasks); once all tasks are finished or cancelled the count "
        "returns to the idle level, stop(3 s) returns in < 1 s and leaves 0. Non-trivial = >= 2 workers were created or cancels were issued; distinct = (sizes, keep-alive, tasks, cancel plan). "
        "min_size > 0 is not explored: an idle core worker never yields inside a pass without the preemptive feature (noted in DESIGN.md).")

def run(tier, seed, t0):
    cases = cl.run_cases(PID, "c11", seed, tier, 1200 if tier == "thorough" else 120, case_timeout=60, jobs=16, binname="pool")
    if tier == "thorough":
        try:
            cases += cl.asan_cases(PID, "c11", seed, 120, binname="pool")
        except vlib.BuildError as e:
            c = vlib.Case(3_000_000); c.engine = "asan"; c.verdict = "inconclusive"; c.sig = "harness/asan-build-failed"; c.detail = str(e)[:300]; cases.append(c)
    return vlib.finish(PID, tier, seed, "exploration", cases, rule=RULE, t0=t0, replay_builder=cl.rb_factory("c11", seed, binname="pool"),
                       assumptions=["cancels are requested between passes from the scheduling thread (signal-driven cancels of running tasks belong to C13)"])

replay = cc.replay_factory(PID)
