"""Shared by the checks built on wl-core's `sys` binary (hooked syscalls through the fn_ptr seam)."""
import os
import vlib
from checks import common_core as cc

GRID_L2 = (1 + 9 + 81) * 8 * 10 * 2      # every script of length <= 2 x 8 buffer shapes x 10 calls x {blocking, caller-non-blocking}
GRID_L3 = (1 + 9 + 81 + 729) * 8 * 10 * 2

def io_cases(pid, seed, tier, focus):
    thorough = tier == "thorough"
    lmax = 3 if thorough else 2
    grid = GRID_L3 if thorough else GRID_L2
    extra = 60000 if thorough else 6000
    d = cc.build()
    argv = [os.path.join(d, "sys"), "io", "--focus", focus, "--seed", str(seed), "--tier", tier, "--lmax", str(lmax)]
    def pol(case, rc, timed_out, tail):
        if not timed_out and rc is not None and rc < 0:
            return ("violated", f"{focus}/process-crashed-in-hooked-call", f"rc={rc} {tail[-500:]}")
        if "panicked" in tail or "abort" in tail.lower():
            return ("violated", f"{focus}/process-aborted-in-hooked-call", tail[-600:])
        return vlib.default_crash_policy(case, rc, timed_out, tail)
    cases = vlib.fan_out(argv, grid + extra, engine="native scripted-kernel", case_timeout=60, crash_policy=pol, jobs=32, shard=max(200, (grid + extra) // 64))
    if thorough:
        try:
            da = cc.build_asan(bins=["sys"])
            a = vlib.fan_out([os.path.join(da, "sys"), "io", "--focus", focus, "--seed", str(seed + 9), "--lmax", "2"], GRID_L2 + 4000, engine="asan scripted-kernel",
                             env=cc.ASAN_ENV, case_timeout=120, crash_policy=cc.asan_policy(focus), jobs=32, shard=600)
            for c in a:
                c.idx += 50_000_000
            cases += a
        except vlib.BuildError as e:
            c = vlib.Case(50_000_000); c.engine = "asan"; c.verdict = "inconclusive"; c.sig = "harness/asan-build-failed"; c.detail = str(e); cases.append(c)
    return cases, lmax, grid

def io_replay_builder(focus, seed, tier, lmax):
    def rb(c):
        if c.idx >= 50_000_000:
            return {"cmd": f"/verif/wl-core/target-asan/x86_64-unknown-linux-gnu/release/sys io --focus {focus} --seed {seed+9} --lmax 2 --from {c.idx-50_000_000} --to {c.idx-50_000_000+1}", "env": cc.ASAN_ENV}
        return {"cmd": f"/verif/wl-core/target/release/sys io --focus {focus} --seed {seed} --lmax {lmax} --from {c.idx} --to {c.idx+1}"}
    return rb

IO_RULE = ("Scripted kernel injected through the `fn_ptr` seam of every open_coroutine_core::syscall entry point: the descriptor is a real socketpair end (so is_socket/fcntl/readiness waits are real) while the transfer itself follows a script over "
           "{partial(1), partial(to end of first buffer), partial(first buffer+1), partial(all but 1), full, EAGAIN, EINTR, EOF/EPIPE, ECONNRESET, endless EAGAIN with a 30 ms socket timeout}. "
           "Bounded-exhaustive grid: every script of length <= L (L=2 quick, 3 thorough) x 8 buffer shapes (incl. zero-length entries and zero-length requests) x {read, recv, recvfrom, readv, recvmsg, write, send, sendto, writev, sendmsg} x {blocking, caller-set O_NONBLOCK}; "
           "plus seeded longer scripts (<= 6), coroutine context (inside a task) and timeouts. The scripted kernel owns the byte stream, counts what it moved and where, and inspects every (pointer,length) list and element count it is handed. ")
