"""C27 — io_uring completions reach the call that submitted them (exploration; `io_uring` feature build)."""
import vlib
from checks import common_loops as cl, common_core as cc

PID = "C27"
RULE = ("Built with open-coroutine-core's `io_uring` feature (works on this kernel); one process per case: 1-32 coroutine callers (+ one plain-thread caller in a third of the cases) each issue 8-40 operations through the core entry points: "
        "pwrite of a unique block at a unique offset + pread back, send + recv of a unique 8-byte tag on an own socketpair, and operations that must complete negatively (pwrite through a read-only descriptor -> EBADF, recv on a regular file -> ENOTSOCK, mkdirat of an existing directory -> EEXIST, mkdirat below /sys and pwrite to a write-sealed memfd -> whatever errno the native call reports, e.g. EPERM). "
        "A third of the operations use the other calls that go through io_uring: pwritev/preadv of two unique pieces at a unique offset; write/writev/read/readv on a socket pair of its own, shutdown(SHUT_WR) then read at end of stream (0), fsync, close (0) and close of a descriptor number that was never open (EBADF); renameat of an own file (new name exists, old one gone) and of the now missing source (ENOENT); socket + connect to an own listener + accept/accept4 + send/recv of a tag + half-close + recv at end of stream; 64 bytes queued on a TCP connection and received 16 at a time (completions that carry the 'more data in the socket' flag). "
        "Oracle per call: own byte count and own data (somebody else's data = cross-delivery), -1 with exactly the expected errno; a caller still blocked 5 s after the last completion anybody received = lost completion. "
        "One operation in 16 sends with a 300 ms send timeout (completes at once) and then receives data that only arrives after 600 ms: what the finished call left behind must not end the next one. "
        "One operation in 12 checks that a call only obeys the timeout of its own direction: a write-type call (send, sendto, sendmsg, write, writev) on a full socket whose SO_RCVTIMEO is 100 ms, or a read-type call (recv, recvmsg, read, readv) on an empty socket whose SO_SNDTIMEO is 100 ms, with a peer that acts after 300 ms, must return its 8 bytes. "
        "One operation in 10 sends over loopback TCP with sendto (a zero-copy send, two completions) and at once receives on another socket whose data arrives 50 ms later: the receive must get its own bytes, the TCP peer the tag. "
        "Every sixth case lets caller 0 begin with a receive that runs into its own 20 ms SO_RCVTIMEO (on a socket pair of its own): all later calls of that caller must still return their own results. "
        "Every fourth case forces the submit/register window of the plain-thread caller open with the `uring:after_submit` pause hook (80 ms). Distinct = (callers, threads, ops, forced).")

def pol(case, rc, timed_out, tail):
    if timed_out:
        return ("inconclusive", "harness/timeout", tail[-300:])
    if rc is not None and rc != 0:
        d = case.desc or {}
        if "runs into its timeout" in str(d.get("first_call_of_caller_0", "")) and "previous token was not retrieved" in tail:
            return ("violated", f"{PID}/process-died/call-after-a-timed-out-call-finds-the-callers-wait-slot-taken", f"rc={rc} {tail[-500:]}")
        return ("violated", f"{PID}/process-died", f"rc={rc} {tail[-500:]}")
    return vlib.default_crash_policy(case, rc, timed_out, tail)

def run(tier, seed, t0):
    cases = cl.run_cases(PID, "c27", seed, tier, 300 if tier == "thorough" else 36, case_timeout=90, jobs=8, crash_policy=pol, features=["io_uring"], binname="uring")
    return vlib.finish(PID, tier, seed, "exploration", cases, rule=RULE, t0=t0, replay_builder=cl.rb_factory("c27", seed, binname="uring", feat="-io_uring"),
                       assumptions=["kernel 6.18 with io_uring available in this VM", "positional reads on sockets/pipes are not used: io_uring ignores the offset there and blocks like a plain read (differs from pread's ESPIPE, outside this property)"])

replay = cc.replay_factory(PID)
