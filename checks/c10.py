"""C10 — scheduler completes each coroutine once and honours delays and cancels (exploration)."""
import vlib
from checks import common_core as cc

PID = "C10"
RULE = ("1-40 coroutines with random programs (plain suspends, delays of 1-25 ms, return or panic), random priorities, on one Scheduler; scheduling passes with >=150 ms budgets separated by random 0-12 ms gaps; "
        "cancel requests issued between passes for random coroutines. The body stamps (coroutine, step, time, pass#, wake-up time it had asked for) at every resumption. Offline oracle over the stamps and the result maps: "
        "every non-cancelled coroutine has exactly one result, and it is its own value/panic message; no stamp earlier than its wake-up time; resumed no later than the first pass that started at/after the wake-up time; "
        "no stamp after a cancel request and no result for it; everyone else runs all its steps. Non-trivial = >= 2 coroutines and >= 1 delay; distinct = (program shapes, cancel plan).")

def run(tier, seed, t0):
    cases = cc.simple(PID, "coro", "c10", seed, tier, 6000 if tier == "thorough" else 480, case_timeout=120)
    def rb(c):
        return {"cmd": f"/verif/wl-core/target/release/coro c10 --seed {seed} --from {c.idx} --to {c.idx+1}"}
    return vlib.finish(PID, tier, seed, "exploration", cases, rule=RULE, t0=t0, replay_builder=rb,
                       assumptions=["one Scheduler per process at a time (schedulers share a process-wide queue and steal from each other; out of this property's scope)",
                                    "pass budgets (150 ms) are never the reason a due coroutine is not resumed"])

replay = cc.replay_factory(PID)
