"""C14 — hooked timed waits honour the requested timeout (exploration)."""
import os
import vlib
from checks import common_core as cc

PID = "C14"
NCASES = 2 * (30 + 4 + 6 + 5 + 6)
RULE = ("{sleep, usleep, nanosleep, poll, select, pthread_cond_timedwait} x {plain thread, coroutine (task)} through the core entry points with the real libc underneath, nothing ever ready: 30 durations from 0 to 1 s incl. unit boundaries "
        "(999 999 us, 999 999 999 ns, 1 s + 1 ns), judged on CLOCK_MONOTONIC: never earlier than requested (tolerance min(1 ms,10%)+20 us), fastest of 3 attempts no later than requested + 300 ms (so a scheduling hiccup cannot alarm, a unit error cannot hide); "
        "4 long waits (4.4 s) checked for 'not early' (32-bit unit overflow); 6 invalid arguments (negative tv_sec/tv_nsec/tv_usec, tv_nsec = 1e9) compared with what the native call answers for the same argument, each able to kill its process; "
        "5 waits issued right after a recv with SO_RCVTIMEO = 40 ms was completed by data (a leftover timeout entry of the finished call must not end the next wait early); "
        "6 maximal timeouts that must neither return within 400 ms nor abort. Each case is a distinct (call, argument, context); a dead or silent process is a violation with the argument as replay.")

def pol(case, rc, timed_out, tail):
    d = case.desc or {}
    call = str(d.get("call", "?"))
    name = call.split("(")[0].lower()
    if timed_out:
        return ("violated", f"{PID}/{name}/never-returned", f"{call}: no answer; " + tail[-200:])
    if rc is not None and rc != 0:
        return ("violated", f"{PID}/{name}/process-died", f"{call}: rc={rc} {tail[-400:]}")
    return vlib.default_crash_policy(case, rc, timed_out, tail)

def run(tier, seed, t0):
    d = cc.build()
    cases = vlib.fan_out([os.path.join(d, "sys"), "timed"], NCASES, engine="native real-libc", case_timeout=60, crash_policy=pol, jobs=32, shard=2, confirm_timing=True)
    if tier == "thorough":
        for rep in range(1, 4):
            more = vlib.fan_out([os.path.join(d, "sys"), "timed"], 2 * 30, engine=f"native real-libc (repeat {rep})", case_timeout=60, crash_policy=pol, jobs=16, shard=2, confirm_timing=True)
            for c in more:
                c.idx += rep * 1000; c.fp = (c.fp or "") + f"#r{rep}"
            cases += more
    def rb(c):
        i = c.idx % 1000
        return {"cmd": f"/verif/wl-core/target/release/sys timed --from {i} --to {i+1}"}
    from checks import common_hook as ch
    try:
        cases += ch.cases(PID, seed, tier, 8 if tier != "thorough" else 24)
        if tier == "thorough":
            cases += ch.memcheck_cases(PID, seed, 6)
    except vlib.BuildError as e:
        c = vlib.Case(7_000_000); c.engine = "LD_PRELOAD interposition"; c.verdict = "inconclusive"; c.sig = "harness/hook-dylib-build-failed"; c.detail = str(e); cases.append(c)
    return vlib.finish(PID, tier, seed, "exploration", cases, rule=RULE, t0=t0, replay_builder=rb,
                       assumptions=["300 ms slack on the fastest of 3 attempts", "core entry points with real libc inner calls; the interposed libc symbols of the hook dylib forward to the same entry points"])

replay = cc.replay_factory(PID)
