#!/bin/bash
# Run once after a fresh restore, offline. Pre-builds the workload crates so that the
# first quick check does not pay for a cold dependency build. Every check rebuilds
# (incrementally) against /repo's working tree anyway.
set -u
cd "$(dirname "$0")"
export CARGO_NET_OFFLINE=true
mkdir -p evidence replay work
for c in wl-pure wl-core wl-hook; do
  if [ -d "$c" ]; then
    [ -f "$c/Cargo.lock" ] || cp /repo/Cargo.lock "$c/Cargo.lock"
    (cd "$c" && cargo build --release --offline 2>&1 | tail -2)
  fi
done
# the hook dylib for the LD_PRELOAD interposition harness (rebuilt incrementally by the checks)
cargo build --release -p open-coroutine-hook --offline --manifest-path /repo/Cargo.toml --target-dir wl-hook/target-dylib 2>&1 | tail -1
exit 0
