//! Coroutine-level workloads with online oracles: C07 (state machine), C08 (values/panics),
//! C09 (per-yield requests), C10 (scheduler), C25 (coroutine-local on real coroutines).
//! usage: coro <c07|c08|c09|c10|c25> --seed S --tier T --from A --to B [--out F]
#![allow(clippy::too_many_lines, clippy::type_complexity)]
use mon::{case_range, fp_of, jobj, Args, Out, Rng, Verdict, J};
use open_coroutine_core::common::constants::{CoroutineState, SyscallName, SyscallState};
use open_coroutine_core::common::now;
use open_coroutine_core::coroutine::listener::Listener;
use open_coroutine_core::coroutine::local::CoroutineLocal;
use open_coroutine_core::coroutine::suspender::Suspender;
use open_coroutine_core::coroutine::Coroutine;
use open_coroutine_core::scheduler::{SchedulableCoroutine, SchedulableSuspender, Scheduler};
use std::sync::atomic::{AtomicU64, Ordering};
use std::sync::{Arc, Mutex};
use std::time::Duration;

type St = CoroutineState<(), Option<usize>>;

fn st_str<Y: std::fmt::Debug, R: std::fmt::Debug>(s: &CoroutineState<Y, R>) -> String {
    match s {
        CoroutineState::Ready => "Ready".into(),
        CoroutineState::Running => "Running".into(),
        CoroutineState::Suspend(_, ts) => format!("Suspend({})", if *ts == 0 { "0".into() } else { "ts".to_string() }),
        CoroutineState::Syscall(_, n, s) => format!(
            "Syscall({n},{})",
            match s {
                SyscallState::Executing => "Executing",
                SyscallState::Suspend(_) => "Suspend",
                SyscallState::Timeout => "Timeout",
                SyscallState::Callback => "Callback",
            }
        ),
        CoroutineState::Cancelled => "Cancelled".into(),
        CoroutineState::Complete(_) => "Complete".into(),
        CoroutineState::Error(_) => "Error".into(),
    }
}

// ====================================================================== C07
#[derive(Debug, Clone)]
struct Ev {
    kind: &'static str,
    old: St,
    new: Option<St>,
    at: u64,
    extra: String,
}

#[derive(Debug, Clone, Default)]
struct Recorder {
    evs: Arc<Mutex<Vec<Ev>>>,
    panic_in_callbacks: bool,
}

impl Recorder {
    fn push(&self, kind: &'static str, old: St, new: Option<St>, extra: String) {
        self.evs.lock().unwrap().push(Ev { kind, old, new, at: now(), extra });
        if self.panic_in_callbacks {
            panic!("listener panics on purpose");
        }
    }
}

impl Listener<(), Option<usize>> for Recorder {
    fn on_state_changed(&self, _: &CoroutineLocal, old: St, new: St) {
        self.push("changed", old, Some(new), String::new());
    }
    fn on_ready(&self, _: &CoroutineLocal, old: St) {
        self.push("ready", old, None, String::new());
    }
    fn on_running(&self, _: &CoroutineLocal, old: St) {
        self.push("running", old, None, String::new());
    }
    fn on_suspend(&self, _: &CoroutineLocal, old: St) {
        self.push("suspend", old, None, String::new());
    }
    fn on_syscall(&self, _: &CoroutineLocal, old: St) {
        self.push("syscall", old, None, String::new());
    }
    fn on_cancel(&self, _: &CoroutineLocal, old: St) {
        self.push("cancel", old, None, String::new());
    }
    fn on_complete(&self, _: &CoroutineLocal, old: St, result: Option<usize>) {
        self.push("complete", old, None, format!("{result:?}"));
    }
    fn on_error(&self, _: &CoroutineLocal, old: St, message: &str) {
        self.push("error", old, None, message.to_string());
    }
}

/// A listener that panics in every callback; registered BEFORE the recorder in a third of the cases:
/// the recorder must still hear about every change exactly once.
#[derive(Debug, Default)]
struct Grumpy;

impl Listener<(), Option<usize>> for Grumpy {
    fn on_state_changed(&self, _: &CoroutineLocal, _: St, _: St) {
        panic!("grumpy listener: on_state_changed");
    }
    fn on_ready(&self, _: &CoroutineLocal, _: St) {
        panic!("grumpy listener: on_ready");
    }
    fn on_running(&self, _: &CoroutineLocal, _: St) {
        panic!("grumpy listener: on_running");
    }
    fn on_suspend(&self, _: &CoroutineLocal, _: St) {
        panic!("grumpy listener: on_suspend");
    }
    fn on_syscall(&self, _: &CoroutineLocal, _: St) {
        panic!("grumpy listener: on_syscall");
    }
    fn on_cancel(&self, _: &CoroutineLocal, _: St) {
        panic!("grumpy listener: on_cancel");
    }
    fn on_complete(&self, _: &CoroutineLocal, _: St, _: Option<usize>) {
        panic!("grumpy listener: on_complete");
    }
    fn on_error(&self, _: &CoroutineLocal, _: St, _: &str) {
        panic!("grumpy listener: on_error");
    }
}

#[derive(Clone, Copy, Debug, PartialEq)]
enum Step {
    Suspend,
    Delay(u64),
    SysEnter(u8),
    SysYield,
    SysSwitch(u8),
    SysWrong,
    SysLeave,
    Cancel,
    Panic,
    Return(usize),
}

const NAMES: [SyscallName; 3] = [SyscallName::read, SyscallName::write, SyscallName::nanosleep];

fn step_str(s: &Step) -> String {
    format!("{s:?}")
}

fn gen_body(rng: &mut Rng) -> Vec<Step> {
    let n = rng.usize(0, 10);
    let mut v = vec![];
    let mut in_sys: Option<u8> = None;
    for _ in 0..n {
        let s = match (in_sys, rng.below(12)) {
            (None, 0..=2) => Step::Suspend,
            (None, 3..=4) => Step::Delay(rng.range(1, 6)),
            (None, 5..=7) => {
                let k = rng.below(3) as u8;
                in_sys = Some(k);
                Step::SysEnter(k)
            }
            (None, _) => Step::Suspend,
            (Some(_), 0..=2) => Step::SysYield,
            (Some(_), 3..=4) => Step::SysSwitch(rng.below(3) as u8),
            (Some(_), 5) => Step::SysWrong,
            (Some(_), _) => {
                in_sys = None;
                Step::SysLeave
            }
        };
        v.push(s);
    }
    // ending
    match rng.below(10) {
        0..=1 => v.push(Step::Cancel),
        2..=3 => v.push(Step::Panic),
        _ => v.push(Step::Return(rng.usize(0, 1000))),
    }
    // a cancel/panic may also happen while still inside a syscall state (what the signal handler can do)
    v
}

fn class(s: &St) -> &'static str {
    match s {
        CoroutineState::Ready => "ready",
        CoroutineState::Running => "running",
        CoroutineState::Suspend(..) => "suspend",
        CoroutineState::Syscall(..) => "syscall",
        CoroutineState::Cancelled => "cancel",
        CoroutineState::Complete(_) => "complete",
        CoroutineState::Error(_) => "error",
    }
}

fn is_terminal(s: &St) -> bool {
    matches!(s, CoroutineState::Cancelled | CoroutineState::Complete(_) | CoroutineState::Error(_))
}

/// Documented edges; `at` = wall time of the event (for "once due").
fn edge_ok(old: &St, new: &St, at: u64) -> bool {
    use CoroutineState as C;
    match (old, new) {
        (C::Ready, C::Running) => true,
        (C::Running, C::Suspend(..) | C::Syscall(..) | C::Complete(_) | C::Error(_) | C::Cancelled) => true,
        (C::Syscall(..), C::Running) => true,
        (C::Syscall(_, a, _), C::Syscall(_, b, _)) => a == b,
        (C::Suspend(_, ts), C::Ready | C::Running) => *ts <= at,
        _ => false,
    }
}

struct AutoCheck {
    last_new: St,
    consumed: usize,
    terminal_seen: bool,
    fingerprint: Vec<String>,
}

impl AutoCheck {
    /// Consume the events recorded since the last call and check them; returns a violation (kind, detail).
    fn consume(&mut self, evs: &[Ev], state_now: St) -> Result<(), (String, String)> {
        let fresh = &evs[self.consumed..];
        let mut i = 0;
        while i < fresh.len() {
            let e = &fresh[i];
            if e.kind != "changed" {
                return Err(("callback-without-state-change".into(), format!("{} callback (old {}) not preceded by on_state_changed", e.kind, st_str(&e.old))));
            }
            let new = e.new.expect("changed has new");
            if self.terminal_seen {
                return Err(("event-after-terminal-state".into(), format!("{} -> {} reported after a terminal state", st_str(&e.old), st_str(&new))));
            }
            if e.old != self.last_new {
                return Err(("old-state-mismatch".into(), format!("reported old {} but previous reported new was {}", st_str(&e.old), st_str(&self.last_new))));
            }
            if !edge_ok(&e.old, &new, e.at) {
                return Err(("illegal-transition".into(), format!("{} -> {}", st_str(&e.old), st_str(&new))));
            }
            // exactly one specific callback must follow, of the right kind, same old state
            let Some(sp) = fresh.get(i + 1) else {
                return Err(("missing-specific-callback".into(), format!("{} -> {} had no on_{} call", st_str(&e.old), st_str(&new), class(&new))));
            };
            if sp.kind != class(&new) || sp.old != e.old {
                return Err(("wrong-specific-callback".into(), format!("{} -> {} followed by on_{} (old {})", st_str(&e.old), st_str(&new), sp.kind, st_str(&sp.old))));
            }
            match (&new, sp.kind) {
                (CoroutineState::Complete(v), "complete") if sp.extra != format!("{v:?}") => {
                    return Err(("callback-payload-mismatch".into(), format!("on_complete got {} for {v:?}", sp.extra)));
                }
                (CoroutineState::Error(m), "error") if sp.extra != *m => {
                    return Err(("callback-payload-mismatch".into(), format!("on_error got {} for {m}", sp.extra)));
                }
                _ => {}
            }
            self.fingerprint.push(format!("{}>{}", st_str(&e.old), st_str(&new)));
            self.last_new = new;
            if is_terminal(&new) {
                self.terminal_seen = true;
            }
            i += 2;
        }
        self.consumed = evs.len();
        if state_now != self.last_new {
            return Err(("state-differs-from-last-report".into(), format!("state() is {} but listeners last heard {}", st_str(&state_now), st_str(&self.last_new))));
        }
        Ok(())
    }
}

fn c07_case(seed: u64, case: u64) -> (Verdict, String, String, bool, String, J, J) {
    let mut rng = Rng::for_case(seed ^ 0xC07, case);
    let body = gen_body(&mut rng);
    let via_scheduler = case % 5 == 4;
    let grumpy_first = case % 3 == 1;
    let steps_done = Arc::new(AtomicU64::new(0));
    let rec = Recorder::default();
    let evs = rec.evs.clone();
    let sd = steps_done.clone();
    let script = body.clone();
    let cancel_asked = Arc::new(AtomicU64::new(0));
    let ca = cancel_asked.clone();
    let f = move |s: &SchedulableSuspender, ()| -> Option<usize> {
        let mut cur_sys: Option<SyscallName> = None;
        for st in &script {
            match *st {
                Step::Suspend => s.suspend(),
                Step::Delay(ms) => s.delay(Duration::from_millis(ms)),
                Step::SysEnter(k) => {
                    let co = SchedulableCoroutine::current().expect("current");
                    co.syscall((), NAMES[k as usize], SyscallState::Executing).expect("enter syscall");
                    cur_sys = Some(NAMES[k as usize]);
                }
                Step::SysYield => s.suspend(),
                Step::SysSwitch(k) => {
                    let co = SchedulableCoroutine::current().expect("current");
                    let name = cur_sys.expect("in syscall");
                    let ns = match k {
                        0 => SyscallState::Executing,
                        1 => SyscallState::Suspend(now() + 2_000_000),
                        _ => SyscallState::Callback,
                    };
                    co.syscall((), name, ns).expect("same-call syscall change");
                    if matches!(ns, SyscallState::Suspend(_)) {
                        // what wait_just does: yield while parked in the call
                        s.suspend();
                        let co = SchedulableCoroutine::current().expect("current");
                        if let CoroutineState::Syscall((), n, SyscallState::Callback | SyscallState::Timeout) = co.state() {
                            co.syscall((), n, SyscallState::Executing).expect("back to executing");
                        }
                    }
                }
                Step::SysWrong => {
                    let co = SchedulableCoroutine::current().expect("current");
                    let other = if cur_sys == Some(SyscallName::sleep) { SyscallName::usleep } else { SyscallName::sleep };
                    assert!(co.syscall((), other, SyscallState::Executing).is_err(), "syscall of a different call accepted");
                }
                Step::SysLeave => {
                    let co = SchedulableCoroutine::current().expect("current");
                    co.running().expect("leave syscall");
                    cur_sys = None;
                }
                Step::Cancel => {
                    _ = ca.fetch_add(1, Ordering::SeqCst);
                    s.cancel();
                }
                Step::Panic => panic!("scripted panic"),
                Step::Return(v) => {
                    _ = sd.fetch_add(1, Ordering::SeqCst);
                    return Some(v);
                }
            }
            _ = sd.fetch_add(1, Ordering::SeqCst);
        }
        None
    };
    let desc = jobj! {"body" => body.iter().map(step_str).collect::<Vec<_>>().join(" "), "driver" => if via_scheduler {"Scheduler"} else {"resume()"}, "a_listener_that_panics_in_every_callback_is_registered_first" => grumpy_first};
    let mut auto = AutoCheck { last_new: CoroutineState::Ready, consumed: 0, terminal_seen: false, fingerprint: vec![] };
    let mut viol: Option<(String, String)> = None;
    let mut early_tried = 0;
    let mut post_terminal_resumes = 0;
    let mut resumes = 0;
    if via_scheduler {
        let mut sch = Scheduler::new(format!("c07-{seed}-{case}"), 128 * 1024);
        if grumpy_first {
            sch.add_listener(Grumpy);
        }
        sch.add_listener(rec.clone());
        let id = sch.submit_co(f, None, None).expect("submit");
        let deadline = std::time::Instant::now() + Duration::from_secs(5);
        let mut finished = false;
        while std::time::Instant::now() < deadline {
            let r = sch.try_timed_schedule(Duration::from_millis(20));
            resumes += 1;
            let e = evs.lock().unwrap().clone();
            // while scheduled by a Scheduler we cannot read state(); use the last reported one
            let last = e.iter().rev().find_map(|x| x.new).unwrap_or(CoroutineState::Ready);
            if let Err(v) = auto.consume(&e, last) {
                viol = Some(v);
                break;
            }
            let Ok(r) = r else {
                // the body ended while parked in a Syscall state: no documented edge, nothing may be reported
                if !matches!(last, CoroutineState::Syscall(..)) {
                    viol = Some(("scheduler-pass-failed".into(), format!("try_timed_schedule failed with last reported state {}", st_str(&last))));
                }
                break;
            };
            if r.1.contains_key(&id) || auto.terminal_seen {
                finished = true;
                break;
            }
            if matches!(last, CoroutineState::Syscall(_, _, SyscallState::Executing)) {
                // parked in a syscall state without a timeout: nothing will wake it (by design); stop here
                break;
            }
            std::thread::sleep(Duration::from_millis(1));
        }
        let _ = finished;
        // a parked coroutine would trip the scheduler's Drop assertions; leak it, that is not what C07 is about
        std::mem::forget(sch);
    } else {
        let mut co: SchedulableCoroutine = Coroutine::new(Some(format!("c07-{seed}-{case}")), f, None, None).expect("new");
        if grumpy_first {
            co.add_listener(Grumpy);
        }
        co.add_listener(rec.clone());
        let mut stuck_in_syscall_after_panic = false;
        for _round in 0..64 {
            let state = co.state();
            let before_steps = steps_done.load(Ordering::SeqCst);
            let before_evs = evs.lock().unwrap().len();
            if is_terminal(&state) {
                if post_terminal_resumes >= 2 {
                    break;
                }
                post_terminal_resumes += 1;
                let r = co.resume();
                let ok = match (&state, &r) {
                    (CoroutineState::Complete(v), Ok(CoroutineState::Complete(w))) => v == w,
                    (CoroutineState::Error(m), Ok(CoroutineState::Error(n))) => m == n,
                    (CoroutineState::Cancelled, Err(_)) => true,
                    _ => false,
                };
                if !ok {
                    viol = Some(("resume-after-terminal-wrong-result".into(), format!("state {} but resume returned {:?}", st_str(&state), r.as_ref().map(st_str))));
                    break;
                }
                if steps_done.load(Ordering::SeqCst) != before_steps {
                    viol = Some(("user-code-ran-after-terminal-state".into(), "step counter advanced".into()));
                    break;
                }
                if evs.lock().unwrap().len() != before_evs {
                    viol = Some(("event-after-terminal-state".into(), "listener called by a resume after the terminal state".into()));
                    break;
                }
                continue;
            }
            match state {
                CoroutineState::Suspend((), ts) if ts > now() => {
                    if early_tried < 2 {
                        early_tried += 1;
                        let r = co.resume();
                        if r.is_ok() {
                            viol = Some(("resumed-before-due".into(), format!("resume() succeeded {} ns before the wake-up time", ts.saturating_sub(now()))));
                            break;
                        }
                        if steps_done.load(Ordering::SeqCst) != before_steps || evs.lock().unwrap().len() != before_evs {
                            viol = Some(("refused-resume-had-effects".into(), "a refused early resume ran code or reported events".into()));
                            break;
                        }
                    }
                    std::thread::sleep(Duration::from_nanos(ts.saturating_sub(now()) + 100_000));
                    continue;
                }
                CoroutineState::Syscall((), n, SyscallState::Suspend(_)) => {
                    // play the scheduler: callback or timeout, then resume
                    let ns = if rng.chance(1, 2) { SyscallState::Callback } else { SyscallState::Timeout };
                    co.syscall((), n, ns).expect("scheduler-side syscall change");
                }
                _ => {}
            }
            resumes += 1;
            let r = co.resume();
            let e = evs.lock().unwrap().clone();
            if let Err(v) = auto.consume(&e, co.state()) {
                viol = Some(v);
                break;
            }
            match r {
                Ok(s) => {
                    if s != co.state() {
                        viol = Some(("resume-result-differs-from-state".into(), format!("resume returned {} but state() is {}", st_str(&s), st_str(&co.state()))));
                        break;
                    }
                }
                Err(_) => {
                    // legal only when the body ended (panic/cancel) while parked in a syscall state: the
                    // machine has no edge for it, so nothing may have been reported
                    if matches!(co.state(), CoroutineState::Syscall(..)) {
                        stuck_in_syscall_after_panic = true;
                        break;
                    }
                    viol = Some(("resume-refused-unexpectedly".into(), format!("resume() failed in state {}", st_str(&co.state()))));
                    break;
                }
            }
        }
        let _ = stuck_in_syscall_after_panic;
        drop(co);
    }
    // the edge taken must be the one the body asked for: a body that never called cancel() (a request left behind on the
    // thread by an earlier coroutine is not its own) must not be reported Cancelled
    if viol.is_none() && cancel_asked.load(Ordering::SeqCst) == 0 {
        if let Some(e) = evs.lock().unwrap().iter().find(|e| e.kind == "cancel" || matches!(e.new, Some(CoroutineState::Cancelled))) {
            viol = Some(("cancelled-although-the-body-never-asked".into(), format!("listener heard '{}' {} -> {:?} but the body made no cancel request", e.kind, st_str(&e.old), e.new.as_ref().map(st_str))));
        }
    }
    let fp = fp_of(&auto.fingerprint.join(","));
    let obs = jobj! {"transitions" => auto.fingerprint.join(" "), "resumes" => resumes, "early_resume_attempts" => early_tried,
        "resumes_after_terminal" => post_terminal_resumes, "body_steps_completed" => steps_done.load(Ordering::SeqCst)};
    match viol {
        Some((k, d)) => (Verdict::Violated, format!("C07/{k}"), d, true, fp, obs, desc),
        None => (Verdict::Held, String::new(), String::new(), auto.fingerprint.len() >= 3, fp, obs, desc),
    }
}

// ====================================================================== C08
#[derive(Debug, Default)]
struct PanickyListener;

impl Listener<u64, u64> for PanickyListener {
    fn on_state_changed(&self, _: &CoroutineLocal, _: CoroutineState<u64, u64>, _: CoroutineState<u64, u64>) {
        panic!("listener panics in on_state_changed");
    }
    fn on_running(&self, _: &CoroutineLocal, _: CoroutineState<u64, u64>) {
        panic!("listener panics in on_running");
    }
    fn on_suspend(&self, _: &CoroutineLocal, _: CoroutineState<u64, u64>) {
        panic!("listener panics in on_suspend");
    }
    fn on_complete(&self, _: &CoroutineLocal, _: CoroutineState<u64, u64>, _: u64) {
        panic!("listener panics in on_complete");
    }
    fn on_error(&self, _: &CoroutineLocal, _: CoroutineState<u64, u64>, _: &str) {
        panic!("listener panics in on_error");
    }
}

fn c08_case(seed: u64, case: u64) -> (Verdict, String, String, bool, String, J, J) {
    let mut rng = Rng::for_case(seed ^ 0xC08, case);
    let k = rng.usize(0, if case % 7 == 0 { 64 } else { 8 });
    let yields: Vec<u64> = (0..k).map(|i| (case << 20) ^ ((i as u64) << 8) ^ rng.below(256)).collect();
    let params: Vec<u64> = (0..=k + 2).map(|i| 0xA000_0000_0000_0000 | (case << 20) ^ ((i as u64) << 8) ^ rng.below(256)).collect();
    // ending: 0 return, 1 panic &'static str, 2 panic formatted String, 3 panic with a non-string payload
    let ending = rng.below(4);
    let ret = rng.next_u64();
    let parked_other = rng.chance(1, 3); // another coroutine parked in a delay on this thread meanwhile
    let panicky = rng.chance(1, 3);
    let received: Arc<Mutex<Vec<u64>>> = Arc::default();
    let rc = received.clone();
    let ys = yields.clone();
    let msg_dyn = format!("formatted panic #{case}");
    let msg_dyn2 = msg_dyn.clone();
    let mut co: Coroutine<u64, u64, u64> = Coroutine::new(
        Some(format!("c08-{seed}-{case}")),
        move |s: &Suspender<u64, u64>, first: u64| -> u64 {
            rc.lock().unwrap().push(first);
            for y in &ys {
                let p = s.suspend_with(*y);
                rc.lock().unwrap().push(p);
            }
            match ending {
                0 => ret,
                1 => panic!("static panic message"),
                2 => panic!("{}", msg_dyn2),
                _ => std::panic::panic_any(42u32),
            }
        },
        None,
        None,
    )
    .expect("new");
    if panicky {
        co.add_listener(PanickyListener);
    }
    let mut other: Option<Coroutine<(), (), ()>> = None;
    if parked_other {
        let mut o: Coroutine<(), (), ()> = Coroutine::new(Some(format!("c08-other-{seed}-{case}")), |s: &Suspender<(), ()>, ()| s.delay(Duration::from_secs(3600)), None, None).expect("new");
        let _ = o.resume();
        other = Some(o);
    }
    let desc = jobj! {"yields" => k, "ending" => ["return", "panic(&'static str)", "panic(formatted String)", "panic(non-string payload)"][ending as usize],
        "another_coroutine_parked_in_delay" => parked_other, "listener_panics_in_every_callback" => panicky};
    let mut viol: Option<(String, String)> = None;
    let mut sent = vec![];
    for i in 0..k {
        sent.push(params[i]);
        match co.resume_with(params[i]) {
            Ok(CoroutineState::Suspend(y, ts)) => {
                if y != yields[i] {
                    viol = Some(("yielded-value-mismatch".into(), format!("yield #{i}: reported {y:#x}, body yielded {:#x}", yields[i])));
                    break;
                }
                if ts != 0 {
                    viol = Some(("plain-yield-reported-with-timestamp".into(), format!("yield #{i} reported wake-up time {ts}")));
                    break;
                }
            }
            other => {
                viol = Some(("resume-result-unexpected".into(), format!("resume #{i} returned {:?}", other.as_ref().map(st_str))));
                break;
            }
        }
    }
    let mut outcome = String::new();
    if viol.is_none() {
        sent.push(params[k]);
        let r = std::panic::catch_unwind(std::panic::AssertUnwindSafe(|| co.resume_with(params[k])));
        match r {
            Err(_) => viol = Some(("panic-unwound-into-resumer".into(), "resume_with unwound".into())),
            Ok(r) => {
                outcome = format!("{:?}", r.as_ref().map(st_str));
                let want_msg: Option<String> = match ending {
                    1 => Some("static panic message".into()),
                    2 => Some(msg_dyn.clone()),
                    _ => None,
                };
                match (ending, &r) {
                    (0, Ok(CoroutineState::Complete(v))) if *v == ret => {}
                    (1 | 2, Ok(CoroutineState::Error(m))) => {
                        if Some((*m).to_string()) != want_msg {
                            viol = Some((
                                if ending == 2 { "panic-message-lost/formatted-string".into() } else { "panic-message-lost/static-str".into() },
                                format!("body panicked with {:?}, reported error is {m:?}", want_msg.unwrap()),
                            ));
                        }
                    }
                    (3, Ok(CoroutineState::Error(_))) => {}
                    _ => viol = Some(("final-result-unexpected".into(), format!("ending {ending} reported as {outcome}"))),
                }
                if viol.is_none() {
                    // reported exactly once and unchanged on further resumes; no user code again
                    let n_before = received.lock().unwrap().len();
                    for extra in 0..2 {
                        let again = co.resume_with(params[k + 1 + extra]);
                        if format!("{:?}", again.as_ref().map(st_str)) != outcome || again.as_ref().ok() != r.as_ref().ok() {
                            viol = Some(("result-changed-on-later-resume".into(), format!("first {outcome}, later {:?}", again.as_ref().map(st_str))));
                        }
                    }
                    if received.lock().unwrap().len() != n_before {
                        viol = Some(("user-code-ran-after-completion".into(), String::new()));
                    }
                }
            }
        }
    }
    if viol.is_none() {
        let got = received.lock().unwrap().clone();
        if got != sent {
            viol = Some(("resume-values-not-delivered-in-order".into(), format!("sent {sent:x?}, body received {got:x?}")));
        }
        if std::thread::panicking() {
            viol = Some(("resumer-left-unwinding".into(), String::new()));
        }
    }
    drop(other);
    let fp = format!("{k}|{ending}|{parked_other}|{panicky}");
    let obs = jobj! {"values_in" => sent.len(), "values_out" => k, "final" => outcome};
    match viol {
        Some((kind, d)) => (Verdict::Violated, format!("C08/{kind}"), d, true, fp, obs, desc),
        None => (Verdict::Held, String::new(), String::new(), k >= 1, fp, obs, desc),
    }
}

// ====================================================================== C09
#[derive(Clone, Copy, Debug, PartialEq)]
enum Y {
    Plain,
    Until(u64),
    Cancel,
    // yields made while the coroutine is inside a system call; the second field is the call's state at the yield:
    // 0 Executing, 1 Suspend(ts), 2 Timeout, 3 Callback (2 and 3: a call that was woken and waits again before it goes back to Executing)
    SysPlain(u8),
    SysUntil(u64, u8),
    SysCancel(u8),
}

fn c09_case(seed: u64, case: u64) -> (Verdict, String, String, bool, String, J, J) {
    let mut rng = Rng::for_case(seed ^ 0xC09, case);
    let ncos = rng.usize(2, 6);
    // each coroutine: a list of yields; Cancel / SysCancel end it
    let mut scripts: Vec<Vec<Y>> = vec![];
    for _ in 0..ncos {
        let n = rng.usize(1, 4);
        let mut v = vec![];
        for _ in 0..n {
            let y = match rng.below(10) {
                0..=3 => Y::Plain,
                4..=5 => Y::Until(now() + rng.range(1, 50) * 1_000_000_000),
                6 => Y::SysPlain(rng.below(4) as u8),
                7..=8 => Y::SysUntil(now() + rng.range(1, 50) * 1_000_000_000, rng.below(4) as u8),
                _ => {
                    if rng.chance(1, 2) {
                        Y::Cancel
                    } else {
                        Y::SysCancel(rng.below(4) as u8)
                    }
                }
            };
            v.push(y);
            if matches!(y, Y::Cancel | Y::SysCancel(_)) {
                break;
            }
        }
        scripts.push(v);
    }
    let mut cos: Vec<SchedulableCoroutine> = vec![];
    for (i, sc) in scripts.iter().enumerate() {
        let sc = sc.clone();
        cos.push(
            Coroutine::new(
                Some(format!("c09-{seed}-{case}-{i}")),
                move |s: &SchedulableSuspender, ()| -> Option<usize> {
                    for y in &sc {
                        match *y {
                            Y::Plain => s.suspend(),
                            Y::Until(ts) => s.until(ts),
                            Y::Cancel => s.cancel(),
                            Y::SysPlain(st) | Y::SysUntil(_, st) | Y::SysCancel(st) => {
                                let co = SchedulableCoroutine::current().expect("current");
                                co.syscall((), SyscallName::read, SyscallState::Executing).expect("enter");
                                if st >= 1 {
                                    co.syscall((), SyscallName::read, SyscallState::Suspend(u64::MAX)).expect("park");
                                }
                                if st >= 2 {
                                    co.syscall((), SyscallName::read, if st == 2 { SyscallState::Timeout } else { SyscallState::Callback }).expect("woken");
                                }
                                match *y {
                                    Y::SysPlain(_) => s.suspend(),
                                    Y::SysUntil(ts, _) => s.until(ts),
                                    _ => s.cancel(),
                                }
                                let co = SchedulableCoroutine::current().expect("current");
                                co.syscall((), SyscallName::read, SyscallState::Executing).expect("back in the call");
                                co.running().expect("leave");
                            }
                        }
                    }
                    Some(7)
                },
                None,
                None,
            )
            .expect("new"),
        );
    }
    // interleave: pick a random coroutine that still has yields left, resume it, judge that yield in isolation
    let mut pos = vec![0usize; ncos];
    let mut alive: Vec<bool> = vec![true; ncos];
    let mut trace = vec![];
    let mut viol: Option<(String, String)> = None;
    let mut prev_kind: Option<Y> = None;
    let mut after_sys_request = 0;
    for _ in 0..64 {
        let cands: Vec<usize> = (0..ncos).filter(|i| alive[*i] && pos[*i] < scripts[*i].len()).collect();
        if cands.is_empty() {
            break;
        }
        let i = *rng.pick(&cands);
        let y = scripts[i][pos[i]];
        pos[i] += 1;
        // a coroutine suspended with a future timestamp cannot be resumed directly; mimic the scheduler by
        // only resuming from Ready / Syscall(Executing): after Until we stop driving that coroutine
        // what the scheduler does before it resumes a coroutine that is parked in a call
        if let CoroutineState::Syscall((), n, SyscallState::Suspend(_)) = cos[i].state() {
            cos[i].syscall((), n, SyscallState::Callback).expect("callback");
        }
        let r = cos[i].resume();
        trace.push(format!("co{i}:{y:?}"));
        let got = r.as_ref().map(st_str).unwrap_or_else(|e| format!("Err({e})"));
        let ok = match (y, &r) {
            (Y::Plain, Ok(CoroutineState::Suspend((), 0))) => true,
            (Y::Until(ts), Ok(CoroutineState::Suspend((), t))) => *t == ts,
            (Y::Cancel, Ok(CoroutineState::Cancelled)) => true,
            (Y::SysPlain(st) | Y::SysUntil(_, st) | Y::SysCancel(st), Ok(CoroutineState::Syscall((), SyscallName::read, got))) => matches!(
                (st, got),
                (0, SyscallState::Executing) | (1, SyscallState::Suspend(u64::MAX)) | (2, SyscallState::Timeout) | (3, SyscallState::Callback)
            ),
            _ => false,
        };
        if matches!(prev_kind, Some(Y::SysUntil(..) | Y::SysCancel(_))) {
            after_sys_request += 1;
        }
        if !ok {
            let kind = match (y, &r) {
                (Y::Plain, Ok(CoroutineState::Suspend((), _))) => "plain-suspend-reported-with-foreign-timestamp",
                (Y::Plain | Y::Until(_), Ok(CoroutineState::Cancelled)) => "yield-reported-cancelled-without-request",
                (Y::Until(_), Ok(CoroutineState::Suspend((), _))) => "delay-reported-with-wrong-timestamp",
                (Y::Cancel, _) => "cancel-request-not-honoured",
                _ => "yield-misreported",
            };
            let ctx = match prev_kind {
                Some(Y::SysUntil(_, 0 | 1)) => "/after-syscall-state-delay-request",
                Some(Y::SysCancel(0 | 1)) => "/after-syscall-state-cancel-request",
                Some(Y::SysUntil(..)) => "/after-delay-request-of-a-call-that-had-been-woken",
                Some(Y::SysCancel(_)) => "/after-cancel-request-of-a-call-that-had-been-woken",
                _ => "",
            };
            viol = Some((format!("{kind}{ctx}"), format!("co{i} yielded {y:?} but resume reported {got}; previous yield on this thread was {prev_kind:?}")));
            break;
        }
        prev_kind = Some(y);
        match y {
            Y::Until(_) | Y::Cancel | Y::SysCancel(_) | Y::SysUntil(..) | Y::SysPlain(_) => alive[i] = matches!(y, Y::SysPlain(_) | Y::SysUntil(..)),
            Y::Plain => {}
        }
        if matches!(y, Y::SysCancel(_)) {
            alive[i] = false; // it asked to be cancelled while in a call; do not drive it further
        }
    }
    drop(cos);
    let desc = jobj! {"coroutines" => ncos, "interleaving" => trace.join(" ")};
    let fp = fp_of(&trace.iter().map(|t| t.split('(').next().unwrap_or("").to_string()).collect::<Vec<_>>().join(" "));
    let obs = jobj! {"yields_judged" => trace.len(), "yields_right_after_a_syscall_state_request" => after_sys_request};
    match viol {
        Some((k, d)) => (Verdict::Violated, format!("C09/{k}"), d, true, fp, obs, desc),
        None => (Verdict::Held, String::new(), String::new(), after_sys_request > 0, fp, obs, desc),
    }
}


// ====================================================================== C10
#[derive(Clone, Copy, Debug)]
enum SStep {
    Suspend,
    Delay(u64),
    /// parked inside a "system call" with a timeout, the way `EventLoop::wait_just` parks a coroutine
    SysDelay(u64),
}

#[derive(Clone, Debug)]
struct Stamp {
    co: usize,
    step: usize,
    at: u64,
    pass: u64,
    due: u64, // wake-up time requested by the delay that just returned (0 = none)
    woke: u8, // for a wait parked in a system call: 1 = woken by its timeout, 2 = woken by a callback, 3 = anything else
}

fn c10_case(seed: u64, case: u64) -> (Verdict, String, String, bool, String, J, J) {
    static PASS: AtomicU64 = AtomicU64::new(0);
    let mut rng = Rng::for_case(seed ^ 0xC10, case);
    let n = rng.usize(1, if case % 4 == 0 { 40 } else { 8 });
    let progs: Vec<(Vec<SStep>, bool, i64)> = (0..n)
        .map(|_| {
            let k = rng.usize(0, 5);
            let steps = (0..k)
                .map(|_| match rng.below(6) {
                    0..=2 => SStep::Suspend,
                    3 | 4 => SStep::Delay(rng.range(1, 25)),
                    _ => SStep::SysDelay(rng.range(1, 25)),
                })
                .collect();
            (steps, rng.chance(1, 6), rng.below(5) as i64 - 2)
        })
        .collect();
    let log: Arc<Mutex<Vec<Stamp>>> = Arc::default();
    let mut sch = Scheduler::new(format!("c10-{seed}-{case}"), 64 * 1024);
    let mut ids = vec![];
    for (i, (steps, panics, prio)) in progs.iter().enumerate() {
        let (steps, panics, lg) = (steps.clone(), *panics, log.clone());
        let id = sch
            .submit_co(
                move |s: &SchedulableSuspender, ()| -> Option<usize> {
                    lg.lock().unwrap().push(Stamp { co: i, step: 0, at: now(), pass: PASS.load(Ordering::SeqCst), due: 0, woke: 0 });
                    for (k, st) in steps.iter().enumerate() {
                        let mut due = 0;
                        let mut woke = 0;
                        match *st {
                            SStep::Suspend => s.suspend(),
                            SStep::Delay(ms) => {
                                due = now() + ms * 1_000_000;
                                s.until(due);
                            }
                            SStep::SysDelay(ms) => {
                                let co = SchedulableCoroutine::current().expect("current");
                                co.syscall((), SyscallName::nanosleep, SyscallState::Executing).expect("enter call");
                                due = now() + ms * 1_000_000;
                                co.syscall((), SyscallName::nanosleep, SyscallState::Suspend(due)).expect("park in call");
                                s.until(due);
                                let at = now();
                                woke = match co.state() {
                                    CoroutineState::Syscall((), _, SyscallState::Timeout) => 1,
                                    CoroutineState::Syscall((), _, SyscallState::Callback) => 2,
                                    _ => 3,
                                };
                                if woke != 3 {
                                    co.syscall((), SyscallName::nanosleep, SyscallState::Executing).expect("back in call");
                                    co.running().expect("leave call");
                                }
                                lg.lock().unwrap().push(Stamp { co: i, step: k + 1, at, pass: PASS.load(Ordering::SeqCst), due, woke });
                                continue;
                            }
                        }
                        lg.lock().unwrap().push(Stamp { co: i, step: k + 1, at: now(), pass: PASS.load(Ordering::SeqCst), due, woke });
                    }
                    if panics {
                        panic!("c10 scripted panic of coroutine {i}");
                    }
                    Some(1000 + i)
                },
                None,
                Some(*prio),
            )
            .expect("submit_co");
        ids.push(id);
    }
    // cancel plan: (pass index at which to request, coroutine)
    let ncancel = if rng.chance(1, 2) { rng.usize(1, 1 + n / 4) } else { 0 };
    let cancels: Vec<(u64, usize)> = (0..ncancel).map(|_| (rng.range(0, 6), rng.usize(0, n - 1))).collect();
    // callback plan: before the given pass the harness plays the event loop and calls `try_resume` for a coroutine
    let sys_cos: Vec<usize> = (0..n).filter(|i| progs[*i].0.iter().any(|s| matches!(s, SStep::SysDelay(_)))).collect();
    let callbacks: Vec<(u64, usize)> = if sys_cos.is_empty() || rng.chance(1, 2) { vec![] } else { (0..rng.usize(1, 3)).map(|_| (rng.range(1, 6), *rng.pick(&sys_cos))).collect() };
    let mut callbacks_made = vec![0usize; n];
    let mut cancelled_at: Vec<Option<(u64, usize)>> = vec![None; n]; // (time, stamps already logged)
    let mut results: std::collections::HashMap<u64, Vec<Result<Option<usize>, String>>> = std::collections::HashMap::new();
    let mut pass_starts: Vec<u64> = vec![];
    let mut viol: Option<(String, String)> = None;
    let t_end = std::time::Instant::now() + Duration::from_secs(8);
    let mut pass_no = 0u64;
    loop {
        for (at, c) in &cancels {
            if *at == pass_no && cancelled_at[*c].is_none() {
                // requested between passes: the coroutine is not running, so this is "before its next resumption"
                Scheduler::try_cancel_coroutine(ids[*c]);
                let stamps = log.lock().unwrap().iter().filter(|s| s.co == *c).count();
                cancelled_at[*c] = Some((now(), stamps));
            }
        }
        for (at, c) in &callbacks {
            if *at == pass_no {
                sch.try_resume(ids[*c]);
                callbacks_made[*c] += 1;
            }
        }
        pass_no += 1;
        PASS.store(pass_no, Ordering::SeqCst);
        pass_starts.push(now());
        match sch.try_timed_schedule(Duration::from_millis(150)) {
            Ok((_, r)) => {
                for (id, v) in r {
                    results.entry(id).or_default().push(v.map_err(|e| e.to_string()));
                }
            }
            Err(e) => {
                viol = Some(("scheduling-pass-failed".into(), e.to_string()));
                break;
            }
        }
        let lg = log.lock().unwrap();
        let all_done = (0..n).all(|i| {
            results.contains_key(&ids[i])
                || cancelled_at[i].is_some_and(|(_, k)| {
                    // cancelled: done unless it had already finished its body before the request
                    let _ = k;
                    true
                })
        });
        drop(lg);
        if all_done && pass_no >= 8 {
            break;
        }
        if std::time::Instant::now() > t_end {
            break;
        }
        std::thread::sleep(Duration::from_millis(rng.below(12)));
    }
    // let cancelled sleepers reach the ready queue and be discarded, so the scheduler can be dropped cleanly
    std::thread::sleep(Duration::from_millis(30));
    let _ = sch.try_timed_schedule(Duration::from_millis(50));
    let lg = log.lock().unwrap().clone();
    if viol.is_none() {
        for i in 0..n {
            let mine: Vec<&Stamp> = lg.iter().filter(|s| s.co == i).collect();
            let res = results.get(&ids[i]);
            // (1) results exactly once, own value
            if let Some(rs) = res {
                if rs.len() > 1 {
                    viol = Some(("result-reported-twice".into(), format!("coroutine {i}: {rs:?}")));
                    break;
                }
                let want: Result<Option<usize>, String> = if progs[i].1 { Err(format!("c10 scripted panic of coroutine {i}")) } else { Ok(Some(1000 + i)) };
                if rs[0] != want {
                    viol = Some(("result-belongs-to-someone-else".into(), format!("coroutine {i}: reported {:?}, its own outcome is {want:?}", rs[0])));
                    break;
                }
            }
            // (2) delays
            let by_callback = mine.iter().filter(|s| s.woke == 2).count();
            if by_callback > callbacks_made[i] {
                viol = Some(("woken-by-a-callback-nobody-made".into(), format!("coroutine {i}: {by_callback} wake-ups by callback, {} callbacks were made for it", callbacks_made[i])));
                break;
            }
            if let Some(s) = mine.iter().find(|s| s.woke == 3) {
                viol = Some(("resumed-in-a-call-without-timeout-or-callback".into(), format!("coroutine {i} step {}", s.step)));
                break;
            }
            for s in &mine {
                if s.due != 0 && s.woke != 2 {
                    if s.at < s.due {
                        viol = Some(("resumed-before-wake-up-time".into(), format!("coroutine {i} step {} resumed {} ns early", s.step, s.due - s.at)));
                        break;
                    }
                    // first pass that started at or after the wake-up time
                    if let Some(p) = pass_starts.iter().position(|t| *t >= s.due) {
                        if s.pass > (p as u64 + 1) {
                            viol = Some(("not-resumed-by-first-pass-after-wake-up".into(), format!("coroutine {i} step {}: due before pass {} started, resumed in pass {}", s.step, p + 1, s.pass)));
                            break;
                        }
                    }
                }
            }
            if viol.is_some() {
                break;
            }
            // (3) cancels
            if let Some((t, before)) = cancelled_at[i] {
                let finished_before = mine.len() == progs[i].0.len() + 1 && before == mine.len() && res.is_some();
                if !finished_before {
                    if mine.len() > before {
                        viol = Some(("resumed-after-cancel".into(), format!("coroutine {i} was resumed {} more time(s) after the cancel request at {t}", mine.len() - before)));
                        break;
                    }
                    if res.is_some() && before < progs[i].0.len() + 1 {
                        viol = Some(("cancelled-coroutine-reported-a-result".into(), format!("coroutine {i}")));
                        break;
                    }
                }
            } else if res.is_none() {
                viol = Some(("coroutine-never-finished".into(), format!("coroutine {i} (not cancelled) has no result after {} passes; stamps {}", pass_no, mine.len())));
                break;
            } else if mine.len() != progs[i].0.len() + 1 {
                viol = Some(("finished-without-running-all-steps".into(), format!("coroutine {i}: {} stamps, expected {}", mine.len(), progs[i].0.len() + 1)));
                break;
            }
        }
    }
    let delays = progs.iter().map(|p| p.0.iter().filter(|s| matches!(s, SStep::Delay(_) | SStep::SysDelay(_))).count()).sum::<usize>();
    let sys_delays = progs.iter().map(|p| p.0.iter().filter(|s| matches!(s, SStep::SysDelay(_))).count()).sum::<usize>();
    let desc = jobj! {"coroutines" => n, "programs" => progs.iter().take(8).map(|p| format!("{:?}{} prio {}", p.0, if p.1 {" panic"} else {""}, p.2)).collect::<Vec<_>>(),
        "cancel_requests_before_pass" => cancels.iter().map(|(a, c)| format!("pass {a}: co{c}")).collect::<Vec<_>>()};
    let fp = fp_of(&format!("{:?}{:?}", progs.iter().map(|p| p.0.len()).collect::<Vec<_>>(), cancels));
    let obs = jobj! {"passes" => pass_no, "resumption_stamps" => lg.len(), "results" => results.len(), "delays" => delays, "waits_parked_in_a_call" => sys_delays, "woken_by_timeout" => lg.iter().filter(|s| s.woke == 1).count(),
        "woken_by_callback" => lg.iter().filter(|s| s.woke == 2).count(), "callbacks_made" => callbacks_made.iter().sum::<usize>(), "cancel_requests" => cancels.len()};
    if viol.is_some() {
        std::mem::forget(sch); // never run Drop assertions on a broken state; the caller exits the process
    } else {
        drop(sch);
    }
    match viol {
        Some((k, d)) => (Verdict::Violated, format!("C10/{k}"), d, true, fp, obs, desc),
        None => (Verdict::Held, String::new(), String::new(), n >= 2 && delays > 0, fp, obs, desc),
    }
}

// ====================================================================== C25 on real coroutines
mod c25 {
    use super::*;
    include!("../../../shared/local_engine.rs");

    pub fn case(seed: u64, case: u64) -> (Verdict, String, String, bool, String, J, J) {
        let mut rng = Rng::for_case(seed ^ 0x25C0, case);
        let stores = rng.usize(2, 3);
        let n = rng.usize(6, 120);
        let ops = gen_ops(&mut rng, n, stores);
        let trace: Vec<String> = ops.iter().map(lop_str).collect();
        let id_base = (1 << 40) + case * 1_000_000;
        // `stores` real coroutines; an op on store s is executed either from outside through the handle
        // (Deref) or from inside the coroutine body (Coroutine::current()).
        let inside: Vec<bool> = (0..ops.len()).map(|_| rng.chance(1, 2)).collect();
        let model = Arc::new(Mutex::new(LocalModel::new(stores, id_base)));
        let pending: Arc<Mutex<Option<LOp>>> = Arc::default();
        let bad: Arc<Mutex<Option<(String, String)>>> = Arc::default();
        let mut cos: Vec<SchedulableCoroutine> = vec![];
        for i in 0..stores {
            let (m, p, b) = (model.clone(), pending.clone(), bad.clone());
            cos.push(
                Coroutine::new(
                    Some(format!("c25-{seed}-{case}-{i}")),
                    move |s: &SchedulableSuspender, ()| -> Option<usize> {
                        loop {
                            let op = p.lock().unwrap().take();
                            if let Some(op) = op {
                                let me = SchedulableCoroutine::current().expect("current");
                                // the body only knows its own storage
                                let store: &CoroutineLocal<'static> = unsafe { &*(std::ptr::from_ref::<CoroutineLocal>(me) as *const CoroutineLocal<'static>) };
                                if let Err(e) = m.lock().unwrap().step(store, &op) {
                                    *b.lock().unwrap() = Some(e);
                                }
                            }
                            s.suspend();
                        }
                    },
                    None,
                    None,
                )
                .expect("new"),
            );
        }
        let mut first_bad = None;
        for (k, op) in ops.iter().enumerate() {
            let s = match op {
                LOp::Put(s, _) | LOp::Get(s, _) | LOp::GetMut(s, _) | LOp::Remove(s, _) => *s,
            };
            if inside[k] {
                *pending.lock().unwrap() = Some(*op);
                let _ = cos[s].resume();
                if let Some(e) = bad.lock().unwrap().take() {
                    first_bad = Some(e);
                    break;
                }
            } else {
                let store: &CoroutineLocal<'static> = unsafe { &*(std::ptr::from_ref::<CoroutineLocal>(&cos[s]) as *const CoroutineLocal<'static>) };
                if let Err(e) = model.lock().unwrap().step(store, op) {
                    first_bad = Some(e);
                    break;
                }
            }
        }
        let left = model.lock().unwrap().still_stored().len();
        let returned = model.lock().unwrap().returned_values;
        drop(cos); // the coroutines go away: everything still stored must be released now
        if first_bad.is_none() {
            if let Err(e) = drop_audit(id_base, id_base + 1_000_000) {
                first_bad = Some(e);
            }
        }
        let desc = jobj! {"coroutines" => stores, "ops" => trace.join(" "), "ops_issued_from_inside_the_body" => inside.iter().filter(|b| **b).count()};
        let fp = fp_of(&trace.join(" "));
        let obs = jobj! {"ops" => ops.len(), "values_still_stored_when_coroutines_dropped" => left, "values_returned_by_put_or_remove" => returned};
        match first_bad {
            Some((k, d)) => (Verdict::Violated, format!("C25/coroutine/{k}"), d, true, fp, obs, desc),
            None => (Verdict::Held, String::new(), String::new(), left > 0 && returned > 0, fp, obs, desc),
        }
    }
}

fn main() {
    let args = Args::parse();
    let out = Out::open(&args);
    wl_core::quiet_panics();
    let seed = args.u64("seed", 1);
    let (a, b) = case_range(&args, 8);
    let which = args.pos.first().cloned().unwrap_or_default();
    for case in a..b {
        out.begin(case, jobj! {"case" => case});
        let (v, sig, detail, nt, fp, obs, desc) = match which.as_str() {
            "c07" => c07_case(seed, case),
            "c08" => c08_case(seed, case),
            "c09" => c09_case(seed, case),
            "c25" => c25::case(seed, case),
            "c10" => c10_case(seed, case),
            other => {
                eprintln!("unknown subcommand {other}");
                std::process::exit(64);
            }
        };
        out.line(&jobj! {"t" => "desc", "case" => case, "desc" => desc});
        out.end(case, v, &sig, nt, &fp, obs, &detail);
        if which == "c10" && v == Verdict::Violated {
            std::process::exit(3); // leaked scheduler state would pollute later cases (shared global queue)
        }
    }
}
