//! Hooked-syscall workloads: C16/C17 (scripted kernel through the `fn_ptr` seam), C18, C19, C14, C28.
//! usage: sys <io|nonblock|sockopt|timed|helpers> --seed S --tier T --from A --to B [--out F]
#![allow(clippy::too_many_lines, clippy::type_complexity, clippy::similar_names)]
use libc::{c_int, c_void, iovec, msghdr, size_t, sockaddr, socklen_t, ssize_t};
use mon::{case_range, jobj, Args, Out, Rng, Verdict, J};
use open_coroutine_core::config::Config;
use open_coroutine_core::net::EventLoops;
use open_coroutine_core::syscall as oc;
use std::cell::RefCell;
use std::time::{Duration, Instant};

mod timed;

fn errno() -> c_int {
    std::io::Error::last_os_error().raw_os_error().unwrap_or(0)
}

fn set_errno(e: c_int) {
    oc::set_errno(e);
}

fn stream_byte(i: usize) -> u8 {
    ((i * 7 + 3) % 251) as u8 + 1
}

const CANARY: u8 = 0xEE;

// ---------------------------------------------------------------- scripted kernel
#[derive(Clone, Copy, Debug, PartialEq, Eq)]
enum Resp {
    P1,
    Pb,
    Pb1,
    Pr1,
    Full,
    Eagain,
    Eintr,
    Eof,
    Err,
    EagainForever,
}

const ALPHABET: [Resp; 9] = [Resp::P1, Resp::Pb, Resp::Pb1, Resp::Pr1, Resp::Full, Resp::Eagain, Resp::Eintr, Resp::Eof, Resp::Err];

fn resp_str(r: Resp) -> &'static str {
    match r {
        Resp::P1 => "partial(1)",
        Resp::Pb => "partial(to-end-of-first-buffer)",
        Resp::Pb1 => "partial(first-buffer+1)",
        Resp::Pr1 => "partial(all-but-1)",
        Resp::Full => "full",
        Resp::Eagain => "EAGAIN",
        Resp::Eintr => "EINTR",
        Resp::Eof => "EOF/EPIPE",
        Resp::Err => "ECONNRESET",
        Resp::EagainForever => "EAGAIN-forever",
    }
}

#[derive(Default)]
struct Kernel {
    write_side: bool,
    script: Vec<Resp>,
    pos: usize,
    /// caller's buffers as (address, length), in order
    ranges: Vec<(usize, usize)>,
    moved: usize,
    /// bytes the kernel took from the caller (write side)
    transcript: Vec<u8>,
    calls: Vec<String>,
    /// first C17 violation seen inside an inner call: (kind, detail)
    c17: Option<(String, String)>,
    last_errno: c_int,
    last_was_error: bool,
    eof_seen: bool,
}

thread_local! {
    static KERNEL: RefCell<Kernel> = RefCell::new(Kernel::default());
}

/// Model: the caller's byte ranges that are still unfilled/unsent after `moved` bytes, zero-length entries dropped.
fn remaining_ranges(ranges: &[(usize, usize)], moved: usize) -> Vec<(usize, usize)> {
    let mut skip = moved;
    let mut out = vec![];
    for (a, l) in ranges {
        if skip >= *l {
            skip -= *l;
            continue;
        }
        out.push((*a + skip, *l - skip));
        skip = 0;
    }
    out
}

/// How many array entries a correct caller may pass at most: everything from the first entry that is not
/// completely done (zero-length entries in between included).
fn max_entries(ranges: &[(usize, usize)], moved: usize) -> usize {
    let mut skip = moved;
    for (i, (_, l)) in ranges.iter().enumerate() {
        if skip >= *l && *l != 0 {
            skip -= *l;
            continue;
        }
        if *l == 0 && skip == 0 {
            // a zero-length entry right at the frontier may or may not be passed
            return ranges.len() - i;
        }
        if *l == 0 {
            continue;
        }
        return ranges.len() - i;
    }
    0
}

/// The heart of the scripted kernel. `presented` = the (ptr,len) list it was handed, `count_told` = the element
/// count the caller reported (iovcnt / msg_iovlen), `array_len_read` = how many entries were safe to read.
fn kernel_call(op: &str, presented: &[(usize, usize)], count_told: usize) -> ssize_t {
    KERNEL.with(|k| {
        let mut k = k.borrow_mut();
        let model = remaining_ranges(&k.ranges, k.moved);
        let pres_nz: Vec<(usize, usize)> = presented.iter().copied().filter(|p| p.1 != 0).collect();
        k.calls.push(format!("{op}{:?}", presented.iter().map(|p| p.1).collect::<Vec<_>>()));
        if k.c17.is_none() {
            let maxe = max_entries(&k.ranges, k.moved).max(model.len());
            if count_told > maxe && !k.ranges.is_empty() {
                k.c17 = Some(("element-count-exceeds-array".into(), format!("call #{}: told {count_told} elements, at most {maxe} can remain", k.calls.len())));
            } else if pres_nz != model {
                let rel = |v: &[(usize, usize)]| -> Vec<String> {
                    v.iter()
                        .map(|(a, l)| {
                            let mut off = 0usize;
                            let mut name = format!("?{a:#x}");
                            for (i, (ra, rl)) in k.ranges.iter().enumerate() {
                                if *a >= *ra && *a <= *ra + *rl {
                                    name = format!("buf{i}+{}", a - ra);
                                    break;
                                }
                                off += rl;
                            }
                            let _ = off;
                            format!("{name}:{l}")
                        })
                        .collect()
                };
                let kind = if pres_nz.iter().any(|(a, l)| !k.ranges.iter().any(|(ra, rl)| *a >= *ra && a + l <= ra + rl)) {
                    "range-outside-caller-buffers"
                } else if pres_nz.first().map(|p| p.0) != model.first().map(|p| p.0) {
                    "wrong-start-offset"
                } else {
                    "ranges-differ-from-unfilled-remainder"
                };
                k.c17 = Some((kind.into(), format!("call #{}: handed {:?}, unfilled remainder is {:?} (moved so far {})", k.calls.len(), rel(&pres_nz), rel(&model), k.moved)));
            }
        }
        let total_pres: usize = pres_nz.iter().map(|p| p.1).sum();
        let resp = if k.pos < k.script.len() {
            let r = k.script[k.pos];
            if r != Resp::EagainForever {
                k.pos += 1;
            }
            r
        } else {
            Resp::Full
        };
        let first = pres_nz.first().map_or(0, |p| p.1);
        let want = match resp {
            Resp::P1 => 1,
            Resp::Pb => first,
            Resp::Pb1 => first + 1,
            Resp::Pr1 => total_pres.saturating_sub(1),
            Resp::Full => total_pres,
            _ => 0,
        };
        match resp {
            Resp::Eagain | Resp::EagainForever => {
                k.last_errno = libc::EAGAIN;
                k.last_was_error = true;
                set_errno(libc::EAGAIN);
                return -1;
            }
            Resp::Eintr => {
                k.last_errno = libc::EINTR;
                k.last_was_error = true;
                set_errno(libc::EINTR);
                return -1;
            }
            Resp::Err => {
                k.last_errno = libc::ECONNRESET;
                k.last_was_error = true;
                set_errno(libc::ECONNRESET);
                return -1;
            }
            Resp::Eof => {
                if k.write_side {
                    k.last_errno = libc::EPIPE;
                    k.last_was_error = true;
                    set_errno(libc::EPIPE);
                    return -1;
                }
                k.eof_seen = true;
                k.last_was_error = false;
                return 0;
            }
            _ => {}
        }
        let n = want.clamp(usize::from(total_pres > 0), total_pres.max(0));
        // move n bytes through the presented ranges, in order, as a kernel would
        let mut left = n;
        for (a, l) in &pres_nz {
            if left == 0 {
                break;
            }
            let c = left.min(*l);
            for j in 0..c {
                unsafe {
                    if k.write_side {
                        let b = std::ptr::read_volatile((*a + j) as *const u8);
                        k.transcript.push(b);
                    } else {
                        let idx = k.moved + (n - left) + j;
                        std::ptr::write_volatile((*a + j) as *mut u8, stream_byte(idx));
                    }
                }
            }
            left -= c;
        }
        k.moved += n;
        k.last_was_error = false;
        n as ssize_t
    })
}

unsafe fn iov_list(iov: *const iovec, told: usize, safe_max: usize) -> Vec<(usize, usize)> {
    (0..told.min(safe_max)).map(|i| ((*iov.add(i)).iov_base as usize, (*iov.add(i)).iov_len)).collect()
}

fn safe_entries() -> usize {
    KERNEL.with(|k| {
        let k = k.borrow();
        max_entries(&k.ranges, k.moved).max(remaining_ranges(&k.ranges, k.moved).len())
    })
}

extern "C" fn k_read(_: c_int, buf: *mut c_void, len: size_t) -> ssize_t {
    kernel_call("read", &[(buf as usize, len)], 1)
}
extern "C" fn k_recv(_: c_int, buf: *mut c_void, len: size_t, _: c_int) -> ssize_t {
    kernel_call("recv", &[(buf as usize, len)], 1)
}
extern "C" fn k_recvfrom(_: c_int, buf: *mut c_void, len: size_t, _: c_int, _: *mut sockaddr, _: *mut socklen_t) -> ssize_t {
    kernel_call("recvfrom", &[(buf as usize, len)], 1)
}
extern "C" fn k_readv(_: c_int, iov: *const iovec, cnt: c_int) -> ssize_t {
    let l = unsafe { iov_list(iov, cnt as usize, safe_entries()) };
    kernel_call("readv", &l, cnt as usize)
}
extern "C" fn k_recvmsg(_: c_int, msg: *mut msghdr, _: c_int) -> ssize_t {
    let (iov, cnt) = unsafe { ((*msg).msg_iov, (*msg).msg_iovlen as usize) };
    let l = unsafe { iov_list(iov, cnt, safe_entries()) };
    kernel_call("recvmsg", &l, cnt)
}
extern "C" fn k_write(_: c_int, buf: *const c_void, len: size_t) -> ssize_t {
    kernel_call("write", &[(buf as usize, len)], 1)
}
extern "C" fn k_send(_: c_int, buf: *const c_void, len: size_t, _: c_int) -> ssize_t {
    kernel_call("send", &[(buf as usize, len)], 1)
}
extern "C" fn k_sendto(_: c_int, buf: *const c_void, len: size_t, _: c_int, _: *const sockaddr, _: socklen_t) -> ssize_t {
    kernel_call("sendto", &[(buf as usize, len)], 1)
}
extern "C" fn k_writev(_: c_int, iov: *const iovec, cnt: c_int) -> ssize_t {
    let l = unsafe { iov_list(iov, cnt as usize, safe_entries()) };
    kernel_call("writev", &l, cnt as usize)
}
extern "C" fn k_sendmsg(_: c_int, msg: *const msghdr, _: c_int) -> ssize_t {
    let (iov, cnt) = unsafe { ((*msg).msg_iov, (*msg).msg_iovlen as usize) };
    let l = unsafe { iov_list(iov, cnt, safe_entries()) };
    kernel_call("sendmsg", &l, cnt)
}

const OPS: [&str; 10] = ["read", "recv", "recvfrom", "readv", "recvmsg", "write", "send", "sendto", "writev", "sendmsg"];
const SHAPES: [&[usize]; 8] = [&[8], &[4, 8], &[1, 4], &[4, 0, 8], &[0, 4], &[8, 4, 1], &[0], &[4, 4, 4]];

struct IoCase {
    op: usize,
    shape: Vec<usize>,
    script: Vec<Resp>,
    nonblocking: bool,
    in_coroutine: bool,
    timeout_ms: u64,
}

fn decode_script(mut code: u64, len: usize) -> Vec<Resp> {
    let mut v = vec![];
    for _ in 0..len {
        v.push(ALPHABET[(code % 9) as usize]);
        code /= 9;
    }
    v
}

/// Case index -> case. Indices below `grid` enumerate (script of length <= L) x shape x op x mode completely;
/// above it cases are drawn from the seed (longer scripts, coroutine context, timeouts).
fn io_case(seed: u64, case: u64, lmax: usize) -> IoCase {
    let scripts: u64 = (0..=lmax as u32).map(|l| 9u64.pow(l)).sum();
    let grid = scripts * SHAPES.len() as u64 * OPS.len() as u64 * 2;
    if case < grid {
        let mut c = case;
        let nb = c % 2 == 1;
        c /= 2;
        let op = (c % OPS.len() as u64) as usize;
        c /= OPS.len() as u64;
        let shape = (c % SHAPES.len() as u64) as usize;
        c /= SHAPES.len() as u64;
        let mut len = 0usize;
        let mut rest = c;
        while rest >= 9u64.pow(len as u32) {
            rest -= 9u64.pow(len as u32);
            len += 1;
        }
        let is_vec = matches!(OPS[op], "readv" | "recvmsg" | "writev" | "sendmsg");
        let sh: Vec<usize> = if is_vec { SHAPES[shape].to_vec() } else { vec![SHAPES[shape].iter().sum()] };
        return IoCase { op, shape: sh, script: decode_script(rest, len), nonblocking: nb, in_coroutine: false, timeout_ms: 0 };
    }
    let mut rng = Rng::for_case(seed ^ 0x1016, case);
    let op = rng.usize(0, OPS.len() - 1);
    let is_vec = matches!(OPS[op], "readv" | "recvmsg" | "writev" | "sendmsg");
    let nsh = rng.usize(1, 3);
    let mut shape: Vec<usize> = (0..nsh).map(|_| *rng.pick(&[0usize, 1, 4, 8])).collect();
    if !is_vec {
        shape = vec![shape.iter().sum()];
    }
    let len = rng.usize(1, 6);
    let mut script: Vec<Resp> = (0..len).map(|_| *rng.pick(&ALPHABET)).collect();
    let mut timeout_ms = 0;
    if rng.chance(1, 12) {
        // endless would-block with a socket timeout
        script.truncate(rng.usize(0, 2));
        script.retain(|r| !matches!(r, Resp::Eof | Resp::Err | Resp::Full));
        script.push(Resp::EagainForever);
        timeout_ms = 30;
    }
    IoCase { op, shape, script, nonblocking: rng.chance(1, 3), in_coroutine: rng.chance(1, 2), timeout_ms }
}

struct IoOutcome {
    ret: ssize_t,
    err: c_int,
    flags_before: c_int,
    flags_after: c_int,
    elapsed_ms: u64,
    bufs: Vec<Vec<u8>>,
}

fn run_io(c: &IoCase) -> (IoOutcome, Kernel) {
    // a real socket, so that is_socket/fcntl/readiness waits are real; the scripted kernel replaces only the transfer
    let mut sv = [0 as c_int; 2];
    assert_eq!(0, unsafe { libc::socketpair(libc::AF_UNIX, libc::SOCK_STREAM, 0, sv.as_mut_ptr()) });
    let (fd, peer) = (sv[0], sv[1]);
    let write_side = c.op >= 5;
    unsafe {
        // keep the descriptor ready so that readiness waits return quickly
        if !write_side {
            let b = [1u8; 1];
            assert_eq!(1, libc::write(peer, b.as_ptr().cast(), 1));
        }
        if c.timeout_ms > 0 {
            let tv = libc::timeval { tv_sec: 0, tv_usec: (c.timeout_ms * 1000) as libc::suseconds_t };
            let name = if write_side { libc::SO_SNDTIMEO } else { libc::SO_RCVTIMEO };
            assert_eq!(0, oc::setsockopt(None, fd, libc::SOL_SOCKET, name, std::ptr::from_ref(&tv).cast(), size_of::<libc::timeval>() as socklen_t));
        }
        if c.nonblocking {
            let fl = libc::fcntl(fd, libc::F_GETFL);
            assert_eq!(0, libc::fcntl(fd, libc::F_SETFL, fl | libc::O_NONBLOCK));
        }
    }
    let mut bufs: Vec<Vec<u8>> = c.shape.iter().map(|l| vec![CANARY; *l + 2]).collect(); // +2: one canary byte on each side
    if write_side {
        let mut i = 0;
        for b in &mut bufs {
            let n = b.len() - 2;
            for j in 0..n {
                b[1 + j] = stream_byte(i);
                i += 1;
            }
        }
    }
    let ranges: Vec<(usize, usize)> = bufs.iter().map(|b| (b.as_ptr() as usize + 1, b.len() - 2)).collect();
    KERNEL.with(|k| {
        *k.borrow_mut() = Kernel { write_side, script: c.script.clone(), ranges: ranges.clone(), ..Kernel::default() };
    });
    let mut iovs: Vec<iovec> = ranges.iter().map(|(a, l)| iovec { iov_base: *a as *mut c_void, iov_len: *l }).collect();
    let flags_before = unsafe { libc::fcntl(fd, libc::F_GETFL) };
    set_errno(0);
    let t0 = Instant::now();
    let ret: ssize_t = unsafe {
        let (a, l) = ranges[0];
        let mut mh: msghdr = std::mem::zeroed();
        mh.msg_iov = iovs.as_mut_ptr();
        mh.msg_iovlen = iovs.len();
        match OPS[c.op] {
            "read" => oc::read(Some(&(k_read as extern "C" fn(c_int, *mut c_void, size_t) -> ssize_t)), fd, a as *mut c_void, l),
            "recv" => oc::recv(Some(&(k_recv as extern "C" fn(c_int, *mut c_void, size_t, c_int) -> ssize_t)), fd, a as *mut c_void, l, 0),
            "recvfrom" => oc::recvfrom(
                Some(&(k_recvfrom as extern "C" fn(c_int, *mut c_void, size_t, c_int, *mut sockaddr, *mut socklen_t) -> ssize_t)),
                fd,
                a as *mut c_void,
                l,
                0,
                std::ptr::null_mut(),
                std::ptr::null_mut(),
            ),
            "readv" => oc::readv(Some(&(k_readv as extern "C" fn(c_int, *const iovec, c_int) -> ssize_t)), fd, iovs.as_ptr(), iovs.len() as c_int),
            "recvmsg" => oc::recvmsg(Some(&(k_recvmsg as extern "C" fn(c_int, *mut msghdr, c_int) -> ssize_t)), fd, &raw mut mh, 0),
            "write" => oc::write(Some(&(k_write as extern "C" fn(c_int, *const c_void, size_t) -> ssize_t)), fd, a as *const c_void, l),
            "send" => oc::send(Some(&(k_send as extern "C" fn(c_int, *const c_void, size_t, c_int) -> ssize_t)), fd, a as *const c_void, l, 0),
            "sendto" => oc::sendto(
                Some(&(k_sendto as extern "C" fn(c_int, *const c_void, size_t, c_int, *const sockaddr, socklen_t) -> ssize_t)),
                fd,
                a as *const c_void,
                l,
                0,
                std::ptr::null(),
                0,
            ),
            "writev" => oc::writev(Some(&(k_writev as extern "C" fn(c_int, *const iovec, c_int) -> ssize_t)), fd, iovs.as_ptr(), iovs.len() as c_int),
            _ => oc::sendmsg(Some(&(k_sendmsg as extern "C" fn(c_int, *const msghdr, c_int) -> ssize_t)), fd, &raw const mh, 0),
        }
    };
    let err = errno();
    let elapsed_ms = t0.elapsed().as_millis() as u64;
    let flags_after = unsafe { libc::fcntl(fd, libc::F_GETFL) };
    // drop interest and descriptors through the runtime so that registrations do not pile up
    let _ = oc::close(None, fd);
    unsafe { libc::close(peer) };
    let k = KERNEL.with(|k| std::mem::take(&mut *k.borrow_mut()));
    (IoOutcome { ret, err, flags_before, flags_after, elapsed_ms, bufs }, k)
}

/// Oracles for C16 (what the call reports), C17 (what it handed down), C18 (blocking mode / would-block semantics).
fn judge_io(c: &IoCase, o: &IoOutcome, k: &Kernel) -> Vec<(&'static str, String, String)> {
    let mut v: Vec<(&'static str, String, String)> = vec![];
    let op = OPS[c.op];
    let total: usize = c.shape.iter().sum();
    let write_side = c.op >= 5;
    // ---- C17
    if let Some((kind, d)) = &k.c17 {
        v.push(("C17", format!("C17/{op}/{kind}"), d.clone()));
    }
    // ---- C16: return value
    let moved = k.moved;
    if moved > 0 {
        if o.ret != moved as ssize_t {
            let kind = if o.ret == -1 {
                "returns-minus-one-although-bytes-moved"
            } else if (o.ret as usize) < moved {
                "returns-less-than-moved"
            } else {
                "returns-more-than-moved"
            };
            v.push(("C16", format!("C16/{op}/{kind}"), format!("returned {} (errno {}), the scripted kernel moved {moved} bytes; inner calls {:?}", o.ret, o.err, k.calls)));
        }
    } else if total == 0 {
        if o.ret != 0 {
            v.push(("C16", format!("C16/{op}/zero-length-request-not-zero"), format!("returned {} errno {}", o.ret, o.err)));
        }
    } else if k.eof_seen && !k.last_was_error {
        if o.ret != 0 {
            v.push(("C16", format!("C16/{op}/end-of-stream-not-reported-as-zero"), format!("returned {} errno {}", o.ret, o.err)));
        }
    } else if k.last_was_error {
        if o.ret != -1 {
            v.push(("C16", format!("C16/{op}/failure-not-reported"), format!("nothing moved, last inner call failed with errno {}, but the call returned {}", k.last_errno, o.ret)));
        } else {
            let ok = o.err == k.last_errno || (k.last_errno == libc::EAGAIN && (o.err == libc::ETIMEDOUT || o.err == libc::EWOULDBLOCK));
            if !ok {
                v.push(("C16", format!("C16/{op}/errno-not-from-failing-call"), format!("failing inner call set errno {}, caller sees {}", k.last_errno, o.err)));
            }
        }
    } else if !k.calls.is_empty() {
        // nothing moved, no error, no EOF: only possible if the call gave up on its own
        if o.ret != -1 && o.ret != 0 {
            v.push(("C16", format!("C16/{op}/returns-bytes-never-moved"), format!("returned {}", o.ret)));
        }
    }
    // ---- C16: placement (read side: caller buffers; write side: transcript)
    if write_side {
        let want: Vec<u8> = (0..moved).map(stream_byte).collect();
        if k.transcript != want {
            v.push(("C16", format!("C16/{op}/bytes-sent-out-of-order-or-twice"), format!("kernel received {:?}, expected the next {moved} bytes of the caller's data {:?}", k.transcript, want)));
        }
    } else {
        let mut idx = 0usize;
        let mut bad = None;
        for (bi, b) in o.bufs.iter().enumerate() {
            if b[0] != CANARY || b[b.len() - 1] != CANARY {
                bad = Some(format!("bytes written outside buffer {bi}"));
                break;
            }
            for j in 0..b.len() - 2 {
                let want = if idx < moved { stream_byte(idx) } else { CANARY };
                if b[1 + j] != want {
                    bad = Some(format!("buffer {bi} offset {j}: holds {:#x}, expected {:#x} (stream position {idx}, {moved} bytes moved)", b[1 + j], want));
                    break;
                }
                idx += 1;
            }
            if bad.is_some() {
                break;
            }
        }
        if let Some(d) = bad {
            v.push(("C16", format!("C16/{op}/bytes-misplaced-in-caller-buffers"), format!("{d}; inner calls {:?}", k.calls)));
        }
    }
    // ---- C18
    if o.flags_before != o.flags_after {
        v.push(("C18", format!("C18/{op}/blocking-mode-not-restored"), format!("F_GETFL before {:#x}, after {:#x}", o.flags_before, o.flags_after)));
    }
    if c.nonblocking {
        // the first would-block on a caller-non-blocking descriptor must end the call
        let first_eagain = c.script.iter().position(|r| matches!(r, Resp::Eagain | Resp::EagainForever));
        if let Some(p) = first_eagain {
            let consumed_past = k.pos > p + 1 || (c.script[p] == Resp::EagainForever && k.calls.len() > p + 1);
            let reached = k.calls.len() > p;
            if reached && consumed_past {
                v.push(("C18", format!("C18/{op}/would-block-on-nonblocking-descriptor-was-waited-out"), format!("script {:?}: the call kept going after the would-block at position {p} ({} inner calls)", c.script.iter().map(|r| resp_str(*r)).collect::<Vec<_>>(), k.calls.len())));
            }
        }
    }
    // ---- C16 timeout flavour: an endless would-block with a 30 ms limit must end the call in bounded time
    if c.timeout_ms > 0 && !c.nonblocking && o.elapsed_ms > 3000 {
        v.push(("C16", format!("C16/{op}/socket-timeout-not-applied"), format!("took {} ms with a {} ms limit", o.elapsed_ms, c.timeout_ms)));
    }
    v
}

fn io_desc(c: &IoCase) -> J {
    jobj! {"op" => OPS[c.op], "buffers" => c.shape.clone(), "kernel_script" => c.script.iter().map(|r| resp_str(*r)).collect::<Vec<_>>(),
        "caller_set_O_NONBLOCK" => c.nonblocking, "context" => if c.in_coroutine {"coroutine (task)"} else {"plain thread"}, "socket_timeout_ms" => c.timeout_ms}
}

fn cmd_io(args: &Args, out: &Out) {
    let seed = args.u64("seed", 1);
    let lmax = args.u64("lmax", 2) as usize;
    let focus = args.str("focus", "C16");
    let (a, b) = case_range(args, 8);
    for case in a..b {
        let c = io_case(seed, case, lmax);
        out.begin(case, io_desc(&c));
        let (o, k) = if c.in_coroutine {
            let (tx, rx) = std::sync::mpsc::channel();
            let c2 = IoCase { op: c.op, shape: c.shape.clone(), script: c.script.clone(), nonblocking: c.nonblocking, in_coroutine: true, timeout_ms: c.timeout_ms };
            let h = EventLoops::submit_task(
                None,
                move |_| {
                    let r = run_io(&c2);
                    let _ = tx.send((r.0.ret, r.0.err, r.0.flags_before, r.0.flags_after, r.0.elapsed_ms, r.0.bufs, KernelSend(r.1)));
                    Some(1)
                },
                None,
                None,
            );
            match rx.recv_timeout(Duration::from_secs(20)) {
                Ok((ret, err, fb, fa, el, bufs, ks)) => {
                    let _ = h.timeout_join(Duration::from_secs(5));
                    (IoOutcome { ret, err, flags_before: fb, flags_after: fa, elapsed_ms: el, bufs }, ks.0)
                }
                Err(_) => {
                    out.end(case, Verdict::Inconclusive, "task-did-not-report", false, "", J::Null, "the task running the hooked call did not finish within 20 s");
                    std::process::exit(3);
                }
            }
        } else {
            run_io(&c)
        };
        let all = judge_io(&c, &o, &k);
        let mine: Vec<&(&'static str, String, String)> = all.iter().filter(|x| x.0 == focus).collect();
        let obs = jobj! {"returned" => o.ret as i64, "errno" => o.err, "bytes_moved_by_kernel" => k.moved, "inner_calls" => k.calls.clone(), "elapsed_ms" => o.elapsed_ms,
            "other_properties_flagged" => all.iter().filter(|x| x.0 != focus).map(|x| x.1.clone()).collect::<Vec<_>>()};
        let fp = format!("{}|{:?}|{:?}|{}|{}", OPS[c.op], c.shape, c.script, c.nonblocking, c.in_coroutine);
        let nontrivial = match focus.as_str() {
            "C17" => matches!(OPS[c.op], "readv" | "recvmsg" | "writev" | "sendmsg") && k.calls.len() >= 2,
            "C18" => true,
            _ => !c.script.is_empty(),
        };
        match mine.first() {
            Some((_, sig, d)) => out.end(case, Verdict::Violated, sig, true, &fp, obs, d),
            None => out.end(case, Verdict::Held, "", nontrivial, &fp, obs, ""),
        }
    }
}

struct KernelSend(Kernel);
unsafe impl Send for KernelSend {}

fn main() {
    let args = Args::parse();
    let out = Out::open(&args);
    wl_core::quiet_panics();
    let which = args.pos.first().cloned().unwrap_or_default();
    if which != "helpers" {
        let mut cfg = Config::single();
        let _ = cfg.set_event_loop_size(args.u64("loops", 1) as usize);
        EventLoops::init(&cfg);
    }
    match which.as_str() {
        "io" => cmd_io(&args, &out),
        "nonblock" => timed::cmd_nonblock(&args, &out),
        "sockopt" => timed::cmd_sockopt(&args, &out),
        "timed" => timed::cmd_timed(&args, &out),
        "helpers" => timed::cmd_helpers(&args, &out),
        other => {
            eprintln!("unknown subcommand {other}");
            std::process::exit(64);
        }
    }
    // do not run the event loops' shutdown machinery: the process just ends
    std::process::exit(0);
}
