//! C18 (real non-blocking sockets), C19 (socket timeout option histories), C14 (timed waits), C28 (helpers).
use super::{errno, set_errno};
use libc::{c_int, c_void, iovec, msghdr, socklen_t, ssize_t};
use mon::{case_range, jobj, Args, Out, Rng, Verdict, J};
use open_coroutine_core::net::EventLoops;
use open_coroutine_core::syscall as oc;
use std::time::{Duration, Instant};

/// Run `f` on a plain thread or inside a task of the event loop; returns None if it did not finish in `limit`.
fn in_ctx<T: Send + 'static>(coroutine: bool, limit: Duration, f: impl FnOnce() -> T + Send + 'static) -> Option<T> {
    let (tx, rx) = std::sync::mpsc::channel();
    if coroutine {
        let h = EventLoops::submit_task(
            None,
            move |_| {
                let _ = tx.send(f());
                Some(1)
            },
            None,
            None,
        );
        let r = rx.recv_timeout(limit).ok();
        std::mem::forget(h);
        r
    } else {
        let _ = std::thread::spawn(move || {
            let _ = tx.send(f());
        });
        rx.recv_timeout(limit).ok()
    }
}

fn socketpair() -> (c_int, c_int) {
    let mut sv = [0 as c_int; 2];
    assert_eq!(0, unsafe { libc::socketpair(libc::AF_UNIX, libc::SOCK_STREAM, 0, sv.as_mut_ptr()) });
    (sv[0], sv[1])
}

fn set_nonblock(fd: c_int) {
    unsafe {
        let fl = libc::fcntl(fd, libc::F_GETFL);
        assert_eq!(0, libc::fcntl(fd, libc::F_SETFL, fl | libc::O_NONBLOCK));
    }
}

// ====================================================================== C18
const NB_OPS: [&str; 12] = ["read", "recv", "recvfrom", "readv", "recvmsg", "write", "send", "sendto", "writev", "sendmsg", "accept", "connect"];

/// One hooked call with the real libc underneath. Returns (ret, errno, elapsed_ms, flags_before, flags_after).
fn real_call(op: &'static str, fd: c_int) -> (ssize_t, c_int, u64, c_int, c_int) {
    let mut buf = vec![0u8; 64 * 1024];
    let mut iov = [iovec { iov_base: buf.as_mut_ptr().cast(), iov_len: 16 * 1024 }, iovec { iov_base: unsafe { buf.as_mut_ptr().add(16 * 1024) }.cast(), iov_len: 16 * 1024 }];
    let fb = unsafe { libc::fcntl(fd, libc::F_GETFL) };
    set_errno(0);
    let t0 = Instant::now();
    let r: ssize_t = unsafe {
        let mut mh: msghdr = std::mem::zeroed();
        mh.msg_iov = iov.as_mut_ptr();
        mh.msg_iovlen = 2;
        match op {
            "read" => oc::read(None, fd, buf.as_mut_ptr().cast(), 1024),
            "recv" => oc::recv(None, fd, buf.as_mut_ptr().cast(), 1024, 0),
            "recvfrom" => oc::recvfrom(None, fd, buf.as_mut_ptr().cast(), 1024, 0, std::ptr::null_mut(), std::ptr::null_mut()),
            "readv" => oc::readv(None, fd, iov.as_ptr(), 2),
            "recvmsg" => oc::recvmsg(None, fd, &raw mut mh, 0),
            "write" => oc::write(None, fd, buf.as_ptr().cast(), buf.len()),
            "send" => oc::send(None, fd, buf.as_ptr().cast(), buf.len(), 0),
            "sendto" => oc::sendto(None, fd, buf.as_ptr().cast(), buf.len(), 0, std::ptr::null(), 0),
            "writev" => oc::writev(None, fd, iov.as_ptr(), 2),
            "sendmsg" => oc::sendmsg(None, fd, &raw const mh, 0),
            "accept" => oc::accept(None, fd, std::ptr::null_mut(), std::ptr::null_mut()) as ssize_t,
            _ => unreachable!(),
        }
    };
    let e = errno();
    let el = t0.elapsed().as_millis() as u64;
    let fa = unsafe { libc::fcntl(fd, libc::F_GETFL) };
    (r, e, el, fb, fa)
}

/// Hooked connect: whatever the outcome, the descriptor's blocking mode must be what the caller set.
fn connect_case(case: u64, out: &Out) {
    let coroutine = (case / 12) % 2 == 1;
    let caller_nonblocking = (case / 24) % 2 == 1;
    // 0 listening unix socket (connects at once), 1 nobody listens, 2 UDP (connects at once),
    // 3 TCP listener on loopback (the non-blocking connect underneath reports EINPROGRESS first), 4 TCP port nobody listens on (refused)
    let target = (case / 48) % 5;
    out.begin(case, jobj! {"op" => "connect", "context" => if coroutine {"coroutine (task)"} else {"plain thread"}, "caller_set_O_NONBLOCK" => caller_nonblocking,
        "target" => ["listening unix stream socket", "unix path nobody listens on", "UDP peer", "TCP listener on 127.0.0.1", "TCP port on 127.0.0.1 nobody listens on"][target as usize]});
    let path = format!("/tmp/verif-c18c-{}-{}.sock\0", std::process::id(), case);
    let (fd, listener, addr, alen): (c_int, c_int, Vec<u8>, socklen_t) = unsafe {
        if target >= 3 {
            let l = libc::socket(libc::AF_INET, libc::SOCK_STREAM, 0);
            let mut a: libc::sockaddr_in = std::mem::zeroed();
            a.sin_family = libc::AF_INET as libc::sa_family_t;
            a.sin_addr.s_addr = u32::from_ne_bytes([127, 0, 0, 1]);
            a.sin_port = 0;
            assert_eq!(0, libc::bind(l, std::ptr::from_ref(&a).cast(), size_of::<libc::sockaddr_in>() as socklen_t));
            let mut len = size_of::<libc::sockaddr_in>() as socklen_t;
            libc::getsockname(l, std::ptr::from_mut(&mut a).cast(), &raw mut len);
            let l = if target == 3 {
                assert_eq!(0, libc::listen(l, 8));
                l
            } else {
                // the port stays reserved for a moment but nobody listens on it
                libc::close(l);
                -1
            };
            let bytes = std::slice::from_raw_parts(std::ptr::from_ref(&a).cast::<u8>(), size_of::<libc::sockaddr_in>()).to_vec();
            (libc::socket(libc::AF_INET, libc::SOCK_STREAM, 0), l, bytes, size_of::<libc::sockaddr_in>() as socklen_t)
        } else if target == 2 {
            let peer = libc::socket(libc::AF_INET, libc::SOCK_DGRAM, 0);
            let mut a: libc::sockaddr_in = std::mem::zeroed();
            a.sin_family = libc::AF_INET as libc::sa_family_t;
            a.sin_addr.s_addr = u32::from_ne_bytes([127, 0, 0, 1]);
            a.sin_port = 0;
            assert_eq!(0, libc::bind(peer, std::ptr::from_ref(&a).cast(), size_of::<libc::sockaddr_in>() as socklen_t));
            let mut l = size_of::<libc::sockaddr_in>() as socklen_t;
            libc::getsockname(peer, std::ptr::from_mut(&mut a).cast(), &raw mut l);
            let bytes = std::slice::from_raw_parts(std::ptr::from_ref(&a).cast::<u8>(), size_of::<libc::sockaddr_in>()).to_vec();
            (libc::socket(libc::AF_INET, libc::SOCK_DGRAM, 0), peer, bytes, size_of::<libc::sockaddr_in>() as socklen_t)
        } else {
            let mut a: libc::sockaddr_un = std::mem::zeroed();
            a.sun_family = libc::AF_UNIX as libc::sa_family_t;
            for (i, ch) in path.bytes().enumerate() {
                a.sun_path[i] = ch as libc::c_char;
            }
            let _ = libc::unlink(path.as_ptr().cast());
            let l = if target == 0 {
                let l = libc::socket(libc::AF_UNIX, libc::SOCK_STREAM, 0);
                assert_eq!(0, libc::bind(l, std::ptr::from_ref(&a).cast(), size_of::<libc::sockaddr_un>() as socklen_t));
                assert_eq!(0, libc::listen(l, 8));
                l
            } else {
                -1
            };
            let bytes = std::slice::from_raw_parts(std::ptr::from_ref(&a).cast::<u8>(), size_of::<libc::sockaddr_un>()).to_vec();
            (libc::socket(libc::AF_UNIX, libc::SOCK_STREAM, 0), l, bytes, size_of::<libc::sockaddr_un>() as socklen_t)
        }
    };
    if caller_nonblocking {
        set_nonblock(fd);
    }
    let res = in_ctx(coroutine, Duration::from_secs(15), move || {
        let fb = unsafe { libc::fcntl(fd, libc::F_GETFL) };
        set_errno(0);
        let r = oc::connect(None, fd, addr.as_ptr().cast(), alen);
        let e = errno();
        let fa = unsafe { libc::fcntl(fd, libc::F_GETFL) };
        (r, e, fb, fa)
    });
    let fp = format!("connect|{coroutine}|{caller_nonblocking}|{target}");
    match res {
        None => {
            out.end(case, Verdict::Violated, "C18/connect/call-never-returned", true, &fp, J::Null, "no result within 15 s");
            std::process::exit(3);
        }
        Some((r, e, fb, fa)) => {
            let obs = jobj! {"returned" => r, "errno" => e, "flags_before" => fb, "flags_after" => fa};
            let ok_ret = match target {
                1 => r == -1,
                // refused: a blocking caller gets the refusal itself, a non-blocking one may also be told "in progress"
                4 => r == -1 && (e == libc::ECONNREFUSED || (caller_nonblocking && e == libc::EINPROGRESS)),
                _ => r == 0 || (caller_nonblocking && r == -1 && (e == libc::EINPROGRESS || e == libc::EAGAIN)),
            };
            if fb != fa {
                out.end(case, Verdict::Violated, "C18/connect/blocking-mode-not-restored", true, &fp, obs, &format!("F_GETFL before {fb:#x} after {fa:#x} (returned {r}, errno {e})"));
            } else if !ok_ret {
                out.end(case, Verdict::Violated, "C18/connect/unexpected-result", true, &fp, obs, &format!("returned {r} errno {e}"));
            } else {
                out.end(case, Verdict::Held, "", true, &fp, obs, "");
            }
        }
    }
    let _ = oc::close(None, fd);
    unsafe {
        if listener >= 0 {
            libc::close(listener);
        }
        let _ = libc::unlink(path.as_ptr().cast());
    }
}

pub fn cmd_nonblock(args: &Args, out: &Out) {
    let seed = args.u64("seed", 1);
    let (a, b) = case_range(args, 8);
    for case in a..b {
        let mut rng = Rng::for_case(seed ^ 0xC18, case);
        let op = NB_OPS[(case % 12) as usize];
        if op == "connect" {
            connect_case(case, out);
            continue;
        }
        let coroutine = (case / 12) % 2 == 1;
        let caller_nonblocking = (case / 24) % 3 != 2; // two thirds of the cases are the interesting ones
        let unblock_after_ms = if caller_nonblocking { 700 } else { rng.range(30, 80) };
        out.begin(case, jobj! {"op" => op, "context" => if coroutine {"coroutine (task)"} else {"plain thread"}, "caller_set_O_NONBLOCK" => caller_nonblocking,
            "situation" => "nothing to read / send buffer full / no pending connection", "peer_acts_after_ms" => unblock_after_ms});
        let write_side = matches!(op, "write" | "send" | "sendto" | "writev" | "sendmsg");
        // set the stage
        let (fd, peer, listener_path) = if op == "accept" {
            let path = format!("/tmp/verif-c18-{}-{}.sock\0", std::process::id(), case);
            unsafe {
                let l = libc::socket(libc::AF_UNIX, libc::SOCK_STREAM, 0);
                let mut addr: libc::sockaddr_un = std::mem::zeroed();
                addr.sun_family = libc::AF_UNIX as libc::sa_family_t;
                for (i, ch) in path.bytes().enumerate() {
                    addr.sun_path[i] = ch as libc::c_char;
                }
                let _ = libc::unlink(path.as_ptr().cast());
                assert_eq!(0, libc::bind(l, std::ptr::from_ref(&addr).cast(), size_of::<libc::sockaddr_un>() as socklen_t));
                assert_eq!(0, libc::listen(l, 8));
                (l, -1, Some(path))
            }
        } else {
            let (x, y) = socketpair();
            (x, y, None)
        };
        if write_side {
            // fill the send buffer natively
            set_nonblock(fd);
            let junk = vec![7u8; 65536];
            loop {
                let r = unsafe { libc::write(fd, junk.as_ptr().cast(), junk.len()) };
                if r < 0 {
                    break;
                }
            }
            if !caller_nonblocking {
                unsafe {
                    let fl = libc::fcntl(fd, libc::F_GETFL);
                    libc::fcntl(fd, libc::F_SETFL, fl & !libc::O_NONBLOCK);
                }
            }
        } else if caller_nonblocking {
            set_nonblock(fd);
        }
        // the peer makes the call possible later, so that a (wrongly) blocked call eventually returns
        let lp = listener_path.clone();
        let helper = std::thread::spawn(move || {
            std::thread::sleep(Duration::from_millis(unblock_after_ms));
            unsafe {
                if let Some(p) = lp {
                    let c = libc::socket(libc::AF_UNIX, libc::SOCK_STREAM, 0);
                    let mut addr: libc::sockaddr_un = std::mem::zeroed();
                    addr.sun_family = libc::AF_UNIX as libc::sa_family_t;
                    for (i, ch) in p.bytes().enumerate() {
                        addr.sun_path[i] = ch as libc::c_char;
                    }
                    let _ = libc::connect(c, std::ptr::from_ref(&addr).cast(), size_of::<libc::sockaddr_un>() as socklen_t);
                    std::thread::sleep(Duration::from_millis(300));
                    libc::close(c);
                } else if write_side {
                    // drain so that the writer can proceed
                    let mut sink = vec![0u8; 1 << 20];
                    set_nonblock(peer);
                    for _ in 0..200 {
                        let _ = libc::read(peer, sink.as_mut_ptr().cast(), sink.len());
                        std::thread::sleep(Duration::from_millis(2));
                    }
                } else {
                    let m = [9u8; 8];
                    let _ = libc::write(peer, m.as_ptr().cast(), 8);
                }
            }
        });
        let res = in_ctx(coroutine, Duration::from_secs(15), move || real_call(op, fd));
        let _ = helper.join();
        let mut viol: Option<(String, String)> = None;
        let mut obs = J::Null;
        let mut inconclusive = false;
        match res {
            None => viol = Some((format!("C18/{op}/call-never-returned"), "no result within 15 s although the peer acted".into())),
            Some((r, e, el, fb, fa)) => {
                obs = jobj! {"returned" => r as i64, "errno" => e, "elapsed_ms" => el, "flags_before" => fb, "flags_after" => fa};
                if fb != fa {
                    viol = Some((format!("C18/{op}/blocking-mode-not-restored"), format!("F_GETFL before {fb:#x} after {fa:#x} (returned {r}, errno {e})")));
                } else if caller_nonblocking {
                    let noise_ms = wl_core::sched_noise_ns() / 1_000_000;
                    if el >= 400 && (20 * noise_ms > 250 || wl_core::overloaded()) {
                        // the machine is too busy to tell "returned at once" from "waited for the peer" (700 ms)
                        inconclusive = true;
                    } else if el >= 400 {
                        viol = Some((format!("C18/{op}/nonblocking-call-waited-instead-of-EAGAIN"), format!("blocked {el} ms (until the peer acted); native behaviour is an immediate EAGAIN; returned {r} errno {e}")));
                    } else if !(r == -1 && (e == libc::EAGAIN || e == libc::EWOULDBLOCK)) {
                        viol = Some((format!("C18/{op}/nonblocking-would-block-not-reported-as-EAGAIN"), format!("returned {r} errno {e} after {el} ms")));
                    }
                } else if r <= 0 && op != "accept" {
                    viol = Some((format!("C18/{op}/blocking-call-failed"), format!("returned {r} errno {e} after {el} ms")));
                } else if op == "accept" && r < 0 {
                    viol = Some((format!("C18/{op}/blocking-call-failed"), format!("returned {r} errno {e} after {el} ms")));
                }
                if op == "accept" && r >= 0 {
                    unsafe { libc::close(r as c_int) };
                }
            }
        }
        let _ = oc::close(None, fd);
        unsafe {
            if peer >= 0 {
                libc::close(peer);
            }
            if let Some(p) = listener_path {
                let _ = libc::unlink(p.as_ptr().cast());
            }
        }
        let fp = format!("{op}|{coroutine}|{caller_nonblocking}");
        if inconclusive && viol.is_none() {
            out.end(case, Verdict::Inconclusive, "machine-too-busy-for-timing-verdict", false, &fp, obs, "");
            continue;
        }
        match viol {
            Some((sig, d)) => {
                out.end(case, Verdict::Violated, &sig, true, &fp, obs, &d);
                if d.contains("never-returned") || sig.contains("never-returned") {
                    std::process::exit(3);
                }
            }
            None => out.end(case, Verdict::Held, "", true, &fp, obs, ""),
        }
    }
}

// ====================================================================== C19
const SO_ALPHA: [&str; 6] = ["set RCVTIMEO=0", "set RCVTIMEO=20ms", "set SNDTIMEO=40ms", "query limits", "hooked recv with nothing to read", "hooked close + new socket"];

fn tv(ms: u64) -> libc::timeval {
    libc::timeval { tv_sec: (ms / 1000) as libc::time_t, tv_usec: ((ms % 1000) * 1000) as libc::suseconds_t }
}

fn native_limit(fd: c_int, name: c_int) -> u64 {
    let mut t: libc::timeval = unsafe { std::mem::zeroed() };
    let mut len = size_of::<libc::timeval>() as socklen_t;
    let r = unsafe { libc::getsockopt(fd, libc::SOL_SOCKET, name, std::ptr::from_mut(&mut t).cast(), &raw mut len) };
    assert_eq!(0, r);
    let ns = t.tv_sec as u64 * 1_000_000_000 + t.tv_usec as u64 * 1000;
    if ns == 0 {
        u64::MAX
    } else {
        ns
    }
}

pub fn cmd_sockopt(args: &Args, out: &Out) {
    let len_max = args.u64("len", 4) as u32;
    let (a, b) = case_range(args, 8);
    for case in a..b {
        // decode: all histories of length 1..=len_max over SO_ALPHA
        let mut rest = case;
        let mut len = 1u32;
        while len <= len_max && rest >= 6u64.pow(len) {
            rest -= 6u64.pow(len);
            len += 1;
        }
        if len > len_max {
            break;
        }
        let hist: Vec<usize> = (0..len).map(|i| ((rest / 6u64.pow(i)) % 6) as usize).collect();
        out.begin(case, jobj! {"history" => hist.iter().map(|h| SO_ALPHA[*h]).collect::<Vec<_>>()});
        let (mut fd, mut peer) = socketpair();
        let mut model = (u64::MAX, u64::MAX); // (recv, send) limits in ns
        let mut viol: Option<(String, String)> = None;
        let mut inconclusive: Option<String> = None;
        let mut io_done = 0;
        let mut reused = 0;
        for (step, h) in hist.iter().enumerate() {
            match *h {
                0 | 1 | 2 => {
                    let (name, ms) = match *h {
                        0 => (libc::SO_RCVTIMEO, 0),
                        1 => (libc::SO_RCVTIMEO, 20),
                        _ => (libc::SO_SNDTIMEO, 40),
                    };
                    let t = tv(ms);
                    let r = oc::setsockopt(None, fd, libc::SOL_SOCKET, name, std::ptr::from_ref(&t).cast::<c_void>(), size_of::<libc::timeval>() as socklen_t);
                    if r != 0 {
                        viol = Some(("setsockopt-failed".into(), format!("step {step}: returned {r} errno {}", errno())));
                        break;
                    }
                    let ns = if ms == 0 { u64::MAX } else { ms * 1_000_000 };
                    if name == libc::SO_RCVTIMEO {
                        model.0 = ns;
                    } else {
                        model.1 = ns;
                    }
                }
                3 => {
                    let (r, s) = (oc::recv_time_limit(fd), oc::send_time_limit(fd));
                    let (nr, ns) = (native_limit(fd, libc::SO_RCVTIMEO), native_limit(fd, libc::SO_SNDTIMEO));
                    if (nr, ns) != model {
                        // the kernel rounds to its tick; the cross-check failed, so this history cannot be judged
                        inconclusive = Some(format!("model {model:?} kernel {:?}", (nr, ns)));
                        break;
                    }
                    if r != model.0 {
                        let kind = if reused > 0 { "recv-limit-stale-after-descriptor-reuse" } else { "recv-limit-differs-from-option" };
                        viol = Some((kind.into(), format!("step {step}: recv_time_limit={r}, the socket's SO_RCVTIMEO means {}", model.0)));
                        break;
                    }
                    if s != model.1 {
                        let kind = if reused > 0 { "send-limit-stale-after-descriptor-reuse" } else { "send-limit-differs-from-option" };
                        viol = Some((kind.into(), format!("step {step}: send_time_limit={s}, the socket's SO_SNDTIMEO means {}", model.1)));
                        break;
                    }
                }
                4 => {
                    // what limit does a hooked call apply? observable as the time a read with nothing to read takes
                    if model.0 == u64::MAX {
                        // would wait forever (correctly); make data available instead so that the call is still exercised
                        let m = [5u8; 4];
                        unsafe { libc::write(peer, m.as_ptr().cast(), 4) };
                    }
                    let mut buf = [0u8; 4];
                    let t0 = Instant::now();
                    set_errno(0);
                    let r = oc::recv(None, fd, buf.as_mut_ptr().cast(), 4, 0);
                    let el = t0.elapsed();
                    io_done += 1;
                    if model.0 == u64::MAX {
                        if r != 4 {
                            viol = Some(("hooked-recv-failed".into(), format!("step {step}: returned {r} errno {}", errno())));
                            break;
                        }
                    } else {
                        let want = Duration::from_nanos(model.0);
                        if r != -1 || el + Duration::from_millis(2) < want || el > want + Duration::from_millis(1500) {
                            let kind = if reused > 0 { "hooked-recv-applied-stale-limit-after-descriptor-reuse" } else { "hooked-recv-applied-wrong-limit" };
                            viol = Some((kind.into(), format!("step {step}: limit {want:?}, call returned {r} after {el:?} (errno {})", errno())));
                            break;
                        }
                    }
                }
                _ => {
                    let old = fd;
                    let _ = oc::close(None, fd);
                    unsafe { libc::close(peer) };
                    let (x, y) = socketpair();
                    fd = x;
                    peer = y;
                    model = (u64::MAX, u64::MAX);
                    if fd == old {
                        reused += 1;
                    }
                }
            }
        }
        let _ = oc::close(None, fd);
        unsafe { libc::close(peer) };
        let fp = format!("{hist:?}");
        let obs = jobj! {"steps" => hist.len(), "hooked_io_calls" => io_done, "descriptor_numbers_reused" => reused};
        let has_set = hist.iter().any(|h| *h <= 2);
        if let Some(d) = inconclusive {
            out.end(case, Verdict::Inconclusive, "harness/model-disagrees-with-kernel-rounding", false, &fp, obs, &d);
            continue;
        }
        match viol {
            Some((k, d)) => out.end(case, Verdict::Violated, &format!("C19/{k}"), true, &fp, obs, &d),
            None => out.end(case, Verdict::Held, "", has_set && hist.len() >= 2, &fp, obs, ""),
        }
    }
}

// ====================================================================== C14
#[derive(Clone, Copy, Debug)]
enum Wait {
    Sleep(u32),
    Usleep(u32),
    Nanosleep(i64, i64),
    Poll(i32),
    Select(i64, i64),
    CondTimedwait(u64),
}

fn wait_str(w: &Wait) -> String {
    format!("{w:?}")
}

fn requested_ns(w: &Wait) -> u64 {
    match *w {
        Wait::Sleep(s) => u64::from(s) * 1_000_000_000,
        Wait::Usleep(u) => u64::from(u) * 1000,
        Wait::Nanosleep(s, n) => s as u64 * 1_000_000_000 + n as u64,
        Wait::Poll(ms) => ms as u64 * 1_000_000,
        Wait::Select(s, u) => s as u64 * 1_000_000_000 + u as u64 * 1000,
        Wait::CondTimedwait(ns) => ns,
    }
}

/// Performs the hooked wait once; returns (ret, errno, elapsed_ns measured with CLOCK_MONOTONIC).
fn do_wait(w: Wait) -> (i64, c_int, u64) {
    set_errno(0);
    let t0 = wl_core::mono_ns();
    let r: i64 = match w {
        Wait::Sleep(s) => i64::from(oc::sleep(None, s)),
        Wait::Usleep(u) => i64::from(oc::usleep(None, u)),
        Wait::Nanosleep(s, n) => {
            let rq = libc::timespec { tv_sec: s, tv_nsec: n };
            i64::from(oc::nanosleep(None, &raw const rq, std::ptr::null_mut()))
        }
        Wait::Poll(ms) => i64::from(oc::poll(None, std::ptr::null_mut(), 0, ms)),
        Wait::Select(s, u) => {
            let mut t = libc::timeval { tv_sec: s, tv_usec: u };
            i64::from(oc::select(None, 0, std::ptr::null_mut(), std::ptr::null_mut(), std::ptr::null_mut(), &raw mut t))
        }
        Wait::CondTimedwait(ns) => unsafe {
            let mut m: libc::pthread_mutex_t = libc::PTHREAD_MUTEX_INITIALIZER;
            let mut c: libc::pthread_cond_t = libc::PTHREAD_COND_INITIALIZER;
            libc::pthread_mutex_lock(&raw mut m);
            let mut nowts: libc::timespec = std::mem::zeroed();
            libc::clock_gettime(libc::CLOCK_REALTIME, &raw mut nowts);
            let abs = nowts.tv_sec as u64 * 1_000_000_000 + nowts.tv_nsec as u64 + ns;
            let ts = libc::timespec { tv_sec: (abs / 1_000_000_000) as libc::time_t, tv_nsec: (abs % 1_000_000_000) as libc::c_long };
            let r = oc::pthread_cond_timedwait(None, &raw mut c, &raw mut m, &raw const ts);
            libc::pthread_mutex_unlock(&raw mut m);
            i64::from(r)
        },
    };
    let e = errno();
    (r, e, wl_core::mono_ns() - t0)
}

fn native_invalid(kind: u64) -> (i64, c_int, String) {
    // (native return, native errno, description); the hooked call must agree
    unsafe {
        set_errno(0);
        match kind {
            0 => {
                let rq = libc::timespec { tv_sec: -1, tv_nsec: 0 };
                (i64::from(libc::nanosleep(&raw const rq, std::ptr::null_mut())), errno(), "nanosleep(tv_sec=-1)".into())
            }
            1 => {
                let rq = libc::timespec { tv_sec: 0, tv_nsec: 1_000_000_000 };
                (i64::from(libc::nanosleep(&raw const rq, std::ptr::null_mut())), errno(), "nanosleep(tv_nsec=1e9)".into())
            }
            2 => {
                let rq = libc::timespec { tv_sec: 0, tv_nsec: -1 };
                (i64::from(libc::nanosleep(&raw const rq, std::ptr::null_mut())), errno(), "nanosleep(tv_nsec=-1)".into())
            }
            3 => {
                let mut t = libc::timeval { tv_sec: -1, tv_usec: 0 };
                (i64::from(libc::select(0, std::ptr::null_mut(), std::ptr::null_mut(), std::ptr::null_mut(), &raw mut t)), errno(), "select(timeval.tv_sec=-1)".into())
            }
            4 => {
                let mut t = libc::timeval { tv_sec: 0, tv_usec: -5 };
                (i64::from(libc::select(0, std::ptr::null_mut(), std::ptr::null_mut(), std::ptr::null_mut(), &raw mut t)), errno(), "select(timeval.tv_usec=-5)".into())
            }
            _ => {
                let mut m: libc::pthread_mutex_t = libc::PTHREAD_MUTEX_INITIALIZER;
                let mut c: libc::pthread_cond_t = libc::PTHREAD_COND_INITIALIZER;
                libc::pthread_mutex_lock(&raw mut m);
                let ts = libc::timespec { tv_sec: 4_000_000_000, tv_nsec: 1_000_000_000 };
                let r = libc::pthread_cond_timedwait(&raw mut c, &raw mut m, &raw const ts);
                libc::pthread_mutex_unlock(&raw mut m);
                (i64::from(r), 0, "pthread_cond_timedwait(tv_nsec=1e9)".into())
            }
        }
    }
}

fn hooked_invalid(kind: u64) -> (i64, c_int) {
    unsafe {
        set_errno(0);
        match kind {
            0 => {
                let rq = libc::timespec { tv_sec: -1, tv_nsec: 0 };
                (i64::from(oc::nanosleep(None, &raw const rq, std::ptr::null_mut())), errno())
            }
            1 => {
                let rq = libc::timespec { tv_sec: 0, tv_nsec: 1_000_000_000 };
                (i64::from(oc::nanosleep(None, &raw const rq, std::ptr::null_mut())), errno())
            }
            2 => {
                let rq = libc::timespec { tv_sec: 0, tv_nsec: -1 };
                (i64::from(oc::nanosleep(None, &raw const rq, std::ptr::null_mut())), errno())
            }
            3 => {
                let mut t = libc::timeval { tv_sec: -1, tv_usec: 0 };
                (i64::from(oc::select(None, 0, std::ptr::null_mut(), std::ptr::null_mut(), std::ptr::null_mut(), &raw mut t)), errno())
            }
            4 => {
                let mut t = libc::timeval { tv_sec: 0, tv_usec: -5 };
                (i64::from(oc::select(None, 0, std::ptr::null_mut(), std::ptr::null_mut(), std::ptr::null_mut(), &raw mut t)), errno())
            }
            _ => {
                let mut m: libc::pthread_mutex_t = libc::PTHREAD_MUTEX_INITIALIZER;
                let mut c: libc::pthread_cond_t = libc::PTHREAD_COND_INITIALIZER;
                libc::pthread_mutex_lock(&raw mut m);
                let ts = libc::timespec { tv_sec: 4_000_000_000, tv_nsec: 1_000_000_000 };
                let r = oc::pthread_cond_timedwait(None, &raw mut c, &raw mut m, &raw const ts);
                libc::pthread_mutex_unlock(&raw mut m);
                (i64::from(r), 0)
            }
        }
    }
}

const WAITS: [Wait; 30] = [
    Wait::Sleep(0),
    Wait::Sleep(1),
    Wait::Usleep(0),
    Wait::Usleep(100),
    Wait::Usleep(1000),
    Wait::Usleep(5000),
    Wait::Usleep(20_000),
    Wait::Usleep(100_000),
    Wait::Usleep(999_999),
    Wait::Nanosleep(0, 0),
    Wait::Nanosleep(0, 100_000),
    Wait::Nanosleep(0, 5_000_000),
    Wait::Nanosleep(0, 20_000_000),
    Wait::Nanosleep(0, 999_999_999),
    Wait::Nanosleep(1, 1),
    Wait::Poll(0),
    Wait::Poll(1),
    Wait::Poll(5),
    Wait::Poll(20),
    Wait::Poll(100),
    Wait::Poll(1000),
    Wait::Select(0, 0),
    Wait::Select(0, 100),
    Wait::Select(0, 5000),
    Wait::Select(0, 20_000),
    Wait::Select(0, 100_000),
    Wait::Select(1, 0),
    Wait::CondTimedwait(1_000_000),
    Wait::CondTimedwait(20_000_000),
    Wait::CondTimedwait(300_000_000),
];

// long waits that only unit/overflow errors make return early; one attempt, "not early" only
const LONG: [Wait; 4] = [Wait::Usleep(4_400_000), Wait::Nanosleep(4, 400_000_000), Wait::Poll(4400), Wait::Select(4, 400_000)];

// waits issued right after a receive with its own timeout was completed by data
const AFTER_IO: [Wait; 5] = [Wait::Usleep(150_000), Wait::Nanosleep(0, 150_000_000), Wait::Poll(150), Wait::Select(0, 150_000), Wait::Sleep(1)];

// maximal values: must neither return within 400 ms nor abort
const HUGE: [Wait; 6] = [Wait::Sleep(u32::MAX), Wait::Usleep(u32::MAX), Wait::Nanosleep(i64::MAX / 4, 999_999_999), Wait::Poll(i32::MAX), Wait::Poll(-1), Wait::Select(i64::MAX / 4, 999_999)];

pub fn cmd_timed(args: &Args, out: &Out) {
    let (a, b) = case_range(args, 8);
    let slack_ns: u64 = 300_000_000;
    for case in a..b {
        let coroutine = case % 2 == 1;
        let k = (case / 2) as usize;
        let ctx = if coroutine { "coroutine (task)" } else { "plain thread" };
        if k < WAITS.len() + LONG.len() {
            let (w, long) = if k < WAITS.len() { (WAITS[k], false) } else { (LONG[k - WAITS.len()], true) };
            let req = requested_ns(&w);
            out.begin(case, jobj! {"call" => wait_str(&w), "context" => ctx, "requested_ns" => req, "attempts" => if long {1} else {3}});
            let mut min_el = u64::MAX;
            let mut viol: Option<(String, String)> = None;
            let mut samples = vec![];
            let noise_before = wl_core::sched_noise_ns();
            let name = wait_str(&w).split('(').next().unwrap_or("").to_lowercase();
            for _ in 0..(if long { 1 } else { 3 }) {
                let limit = Duration::from_nanos(req) + Duration::from_secs(30);
                match in_ctx(coroutine, limit, move || do_wait(w)) {
                    None => {
                        viol = Some((format!("C14/{name}/returns-far-too-late"), format!("{} did not return within requested + 30 s", wait_str(&w))));
                        break;
                    }
                    Some((r, e, el)) => {
                        samples.push(el);
                        min_el = min_el.min(el);
                        let tol = (req / 10).min(1_000_000) + 20_000;
                        let ok_ret = match w {
                            Wait::CondTimedwait(_) => r == i64::from(libc::ETIMEDOUT),
                            _ => r == 0,
                        };
                        if !ok_ret {
                            viol = Some((format!("C14/{name}/unexpected-return-value"), format!("{} returned {r} errno {e}", wait_str(&w))));
                            break;
                        }
                        if el + tol < req {
                            viol = Some((format!("C14/{name}/returns-early"), format!("{} returned after {el} ns, {} ns early", wait_str(&w), req - el)));
                            break;
                        }
                    }
                }
            }
            // slack = 50 ms + 20 x what a native 1 ms sleep overshoots by on this machine right now (measured before and after)
            let noise = noise_before.max(wl_core::sched_noise_ns());
            // waits that are cut into <= 10 ms slices accumulate one wake-up overshoot per slice
            let slack = (50_000_000 + 20 * noise + 4 * noise * (req / 10_000_000)).min(slack_ns.max(5_000_000_000));
            if viol.is_none() && !long && min_el > req + slack {
                viol = Some((format!("C14/{name}/returns-late"), format!("{}: fastest of 3 attempts took {min_el} ns, requested {req} ns (+{slack} ns slack; a native 1 ms sleep currently overshoots by {noise} ns)", wait_str(&w))));
            }
            let fp = format!("{}|{ctx}", wait_str(&w));
            let obs = jobj! {"elapsed_ns" => samples, "requested_ns" => req};
            if viol.as_ref().is_some_and(|v| v.0.contains("late")) && wl_core::overloaded() {
                out.end(case, Verdict::Inconclusive, "machine-overloaded-during-timing-case", false, &fp, obs, &viol.map(|v| v.1).unwrap_or_default());
                continue;
            }
            match viol {
                Some((s, d)) => {
                    let stuck = s.contains("far-too-late");
                    out.end(case, Verdict::Violated, &s, true, &fp, obs, &d);
                    if stuck {
                        std::process::exit(3);
                    }
                }
                None => out.end(case, Verdict::Held, "", req > 0, &fp, obs, ""),
            }
        } else if k < WAITS.len() + LONG.len() + 6 {
            let kind = (k - WAITS.len() - LONG.len()) as u64;
            let (nr, ne, what) = native_invalid(kind);
            out.begin(case, jobj! {"call" => what.clone(), "context" => ctx, "native_result" => nr, "native_errno" => ne, "what" => "invalid time argument: the hooked call must answer like the native one"});
            let res = in_ctx(coroutine, Duration::from_secs(20), move || hooked_invalid(kind));
            let fp = format!("invalid|{kind}|{ctx}");
            let name = what.split('(').next().unwrap_or("").to_string();
            match res {
                None => {
                    out.end(case, Verdict::Violated, &format!("C14/{name}/invalid-argument-not-rejected"), true, &fp, J::Null, &format!("{what}: no answer within 20 s (native: {nr}/errno {ne})"));
                    std::process::exit(3);
                }
                Some((r, e)) => {
                    let obs = jobj! {"hooked_result" => r, "hooked_errno" => e};
                    if r != nr || (nr == -1 && e != ne) {
                        out.end(case, Verdict::Violated, &format!("C14/{name}/invalid-argument-answer-differs-from-native"), true, &fp, obs, &format!("{what}: hooked {r}/errno {e}, native {nr}/errno {ne}"));
                    } else {
                        out.end(case, Verdict::Held, "", true, &fp, obs, "");
                    }
                }
            }
        } else if k < WAITS.len() + LONG.len() + 6 + AFTER_IO.len() {
            // the wait follows a receive that had a 40 ms timeout of its own and was completed by data after ~3 ms:
            // whatever the runtime still remembers of that receive must not cut the wait short
            let w = AFTER_IO[k - WAITS.len() - LONG.len() - 6];
            let req = requested_ns(&w);
            out.begin(case, jobj! {"call" => wait_str(&w), "context" => ctx, "requested_ns" => req,
                "preceded_by" => "recv on a socket with SO_RCVTIMEO = 40 ms, completed by data arriving after ~3 ms"});
            let name = wait_str(&w).split('(').next().unwrap_or("").to_lowercase();
            let fp = format!("after-io|{}|{ctx}", wait_str(&w));
            let res = in_ctx(coroutine, Duration::from_nanos(req) + Duration::from_secs(30), move || {
                let (a, b) = socketpair();
                let tv = libc::timeval { tv_sec: 0, tv_usec: 40_000 };
                let so = oc::setsockopt(None, a, libc::SOL_SOCKET, libc::SO_RCVTIMEO, (&raw const tv).cast(), std::mem::size_of::<libc::timeval>() as libc::socklen_t);
                let feeder = std::thread::spawn(move || {
                    std::thread::sleep(Duration::from_millis(3));
                    unsafe { libc::write(b, b"x".as_ptr().cast(), 1) }
                });
                let mut buf = [0u8; 4];
                let got = oc::recv(None, a, buf.as_mut_ptr().cast(), 4, 0);
                let r = do_wait(w);
                let _ = feeder.join();
                let _ = oc::close(None, a);
                unsafe { libc::close(b) };
                (so, got, r)
            });
            match res {
                None => {
                    out.end(case, Verdict::Violated, &format!("C14/{name}/returns-far-too-late"), true, &fp, J::Null, &format!("{} after a completed recv did not return within requested + 30 s", wait_str(&w)));
                    std::process::exit(3);
                }
                Some((so, got, (r, e, el))) => {
                    let obs = jobj! {"setsockopt" => i64::from(so), "recv_returned" => got as i64, "wait_returned" => r, "elapsed_ns" => el, "requested_ns" => req};
                    let tol = (req / 10).min(1_000_000) + 20_000;
                    if so != 0 || got != 1 {
                        out.end(case, Verdict::Inconclusive, "harness/preceding-recv-did-not-complete-by-data", false, &fp, obs, "");
                    } else if r != 0 {
                        out.end(case, Verdict::Violated, &format!("C14/{name}/unexpected-return-value"), true, &fp, obs, &format!("{} returned {r} errno {e}", wait_str(&w)));
                    } else if el + tol < req {
                        out.end(case, Verdict::Violated, &format!("C14/{name}/returns-early/after-completed-recv"), true, &fp, obs, &format!("{} returned after {el} ns, {} ns early; the receive before it had a 40 ms timeout and was completed by data", wait_str(&w), req - el));
                    } else {
                        out.end(case, Verdict::Held, "", true, &fp, obs, "");
                    }
                }
            }
        } else {
            let hk = k - WAITS.len() - LONG.len() - 6 - AFTER_IO.len();
            if hk >= HUGE.len() {
                break;
            }
            let w = HUGE[hk];
            out.begin(case, jobj! {"call" => wait_str(&w), "context" => ctx, "what" => "maximal timeout: must neither return within 400 ms nor abort; last operation of this process"});
            let res = in_ctx(coroutine, Duration::from_millis(400), move || do_wait(w));
            let fp = format!("huge|{}|{ctx}", wait_str(&w));
            let name = wait_str(&w).split('(').next().unwrap_or("").to_lowercase();
            match res {
                Some((r, e, el)) => out.end(case, Verdict::Violated, &format!("C14/{name}/maximal-timeout-returns-early"), true, &fp, jobj! {"returned" => r, "errno" => e, "elapsed_ns" => el}, &format!("{} returned after {el} ns", wait_str(&w))),
                None => out.end(case, Verdict::Held, "", true, &fp, jobj! {"still_waiting_after_ms" => 400}, ""),
            }
            // the waiter cannot be cancelled: end this process, the driver continues with the next case
            std::process::exit(0);
        }
    }
}

#[allow(dead_code)]
pub const TIMED_CASES: u64 = 2 * (30 + 4 + 6 + 5 + 6);

// ====================================================================== C28
pub fn cmd_helpers(args: &Args, out: &Out) {
    use open_coroutine_core::common::{get_slices, get_timeout_time, now};
    let seed = args.u64("seed", 1);
    let (a, b) = case_range(args, 8);
    for case in a..b {
        let mut rng = Rng::for_case(seed ^ 0xC28, case);
        let part = case % 3;
        match part {
            0 => {
                // deadlines
                let table = [
                    Duration::ZERO,
                    Duration::from_nanos(1),
                    Duration::from_nanos(u64::MAX),
                    Duration::from_nanos(u64::MAX - 1),
                    Duration::MAX,
                    Duration::from_secs(u64::MAX),
                    Duration::from_nanos(u64::MAX - now()),
                    Duration::from_nanos(u64::MAX - now() + 1_000_000_000),
                    Duration::from_nanos(u64::MAX / 2),
                    Duration::from_secs(18_446_744_073),
                    Duration::from_secs(18_446_744_074),
                ];
                let d = if (case / 3) < table.len() as u64 {
                    table[(case / 3) as usize]
                } else {
                    match rng.below(4) {
                        0 => Duration::from_nanos(rng.next_u64()),
                        1 => Duration::from_nanos(u64::MAX - rng.below(1 << 62)),
                        2 => Duration::new(rng.next_u64() >> rng.below(40), (rng.below(1_000_000_000)) as u32),
                        _ => Duration::from_millis(rng.below(1 << 40)),
                    }
                };
                out.begin(case, jobj! {"fn" => "get_timeout_time", "duration_ns" => format!("{}", d.as_nanos())});
                let before = now();
                let t = get_timeout_time(d);
                let after = now();
                let lo = u128::from(before) + d.as_nanos();
                let hi = u128::from(after) + d.as_nanos();
                let fp = format!("deadline|{}", d.as_nanos().leading_zeros());
                let overflow = hi > u128::from(u64::MAX);
                let bad = if lo > u128::from(u64::MAX) {
                    (t != u64::MAX).then(|| ("deadline-wraps-instead-of-saturating", format!("now+{} ns overflows u64 but the deadline is {t}", d.as_nanos())))
                } else if overflow {
                    None
                } else if u128::from(t) < lo || u128::from(t) > hi {
                    Some(("deadline-wrong", format!("deadline {t} not in [{lo}, {hi}]")))
                } else {
                    None
                };
                match bad {
                    Some((k, dd)) => out.end(case, Verdict::Violated, &format!("C28/{k}"), true, &fp, jobj! {"deadline" => t}, &dd),
                    None => out.end(case, Verdict::Held, "", true, &fp, jobj! {"deadline" => t, "saturated" => t == u64::MAX}, ""),
                }
            }
            1 => {
                // slices, step-bounded: run in a helper thread so that a non-terminating loop is observed, not suffered
                let (total, slice) = match (case / 3) % 12 {
                    0 => (Duration::ZERO, Duration::from_millis(10)),
                    1 => (Duration::from_millis(10), Duration::from_millis(10)),
                    2 => (Duration::from_millis(10) + Duration::from_nanos(1), Duration::from_millis(10)),
                    3 => (Duration::from_millis(10) - Duration::from_nanos(1), Duration::from_millis(10)),
                    4 => (Duration::from_nanos(1), Duration::from_nanos(1)),
                    5 => (Duration::from_nanos(7), Duration::from_nanos(2)),
                    6 => (Duration::MAX, Duration::MAX),
                    7 => (Duration::MAX, Duration::from_secs(u64::MAX / 1000)),
                    8 => (Duration::from_secs(3), Duration::from_nanos(999_999_999)),
                    _ => {
                        let total = Duration::from_nanos(rng.below(1 << 34));
                        let slice = Duration::from_nanos(rng.range(1, 1 << 30).max(total.as_nanos() as u64 / 5000 + 1));
                        (total, slice)
                    }
                };
                out.begin(case, jobj! {"fn" => "get_slices", "total_ns" => format!("{}", total.as_nanos()), "slice_ns" => format!("{}", slice.as_nanos())});
                let (tx, rx) = std::sync::mpsc::channel();
                let _ = std::thread::spawn(move || {
                    let _ = tx.send(get_slices(total, slice));
                });
                let fp = format!("slices|{}|{}", total.as_nanos().leading_zeros(), slice.as_nanos().leading_zeros());
                match rx.recv_timeout(Duration::from_secs(10)) {
                    Err(_) => {
                        out.end(case, Verdict::Violated, "C28/get_slices-does-not-terminate", true, &fp, J::Null, "no result within 10 s for a partition of at most 5000 pieces");
                        std::process::exit(3);
                    }
                    Ok(v) => {
                        let sum: u128 = v.iter().map(Duration::as_nanos).sum();
                        let expect_n = if total.is_zero() { 0 } else { total.as_nanos().div_ceil(slice.as_nanos()) };
                        let bad = if v.iter().any(|p| *p > slice) {
                            Some(("slice-piece-larger-than-slice", format!("{v:?}")))
                        } else if sum != total.as_nanos() {
                            Some(("slices-do-not-sum-to-total", format!("sum {sum} total {}", total.as_nanos())))
                        } else if v.len() as u128 != expect_n {
                            Some(("slice-count-unexpected", format!("{} pieces, ceil(total/slice) = {expect_n}", v.len())))
                        } else if v.iter().any(Duration::is_zero) {
                            Some(("empty-slice-piece", format!("{} pieces", v.len())))
                        } else {
                            None
                        };
                        match bad {
                            Some((k, d)) => out.end(case, Verdict::Violated, &format!("C28/{k}"), true, &fp, jobj! {"pieces" => v.len()}, &d),
                            None => out.end(case, Verdict::Held, "", true, &fp, jobj! {"pieces" => v.len()}, ""),
                        }
                    }
                }
            }
            _ => {
                // socket time limit: zero means unlimited, otherwise the option value; observed through the public limit queries
                let kind = (case / 3) % 10;
                if kind >= 6 {
                    // limits at the edge of what fits into u64 nanoseconds, set through the hooked setsockopt (584 years and more; what
                    // `set_read_timeout(Some(Duration::MAX))` hands down): the limit must be exact while it fits and saturate when it does not
                    let (sec, usec): (i64, i64) = match kind {
                        6 => (18_446_744_073, 709_551),
                        7 => (18_446_744_074, 0),
                        8 => (i64::MAX, 0),
                        _ => (18_446_744_073, 999_999),
                    };
                    let snd = (case / 30) % 2 == 1;
                    out.begin(case, jobj! {"fn" => if snd {"send_time_limit"} else {"recv_time_limit"}, "option" => format!("tv_sec={sec} tv_usec={usec} through the hooked setsockopt")});
                    let (fd, peer) = socketpair();
                    let t = libc::timeval { tv_sec: sec, tv_usec: usec };
                    let name = if snd { libc::SO_SNDTIMEO } else { libc::SO_RCVTIMEO };
                    let r = oc::setsockopt(None, fd, libc::SOL_SOCKET, name, std::ptr::from_ref(&t).cast(), size_of::<libc::timeval>() as socklen_t);
                    let got = if snd { oc::send_time_limit(fd) } else { oc::recv_time_limit(fd) };
                    let exact = u128::from(sec as u64) * 1_000_000_000 + u128::from(usec as u64) * 1_000;
                    let want = u64::try_from(exact).unwrap_or(u64::MAX);
                    let _ = peer;
                    let fp = format!("limit-edge|{snd}|{kind}");
                    if r != 0 {
                        out.end(case, Verdict::Inconclusive, "harness/kernel-rejected-the-option", false, &fp, jobj! {"setsockopt" => i64::from(r), "errno" => errno()}, "");
                    } else if got != want {
                        out.end(case, Verdict::Violated, if exact > u128::from(u64::MAX) { "C28/socket-limit-wraps-instead-of-saturating" } else { "C28/socket-limit-wrong" }, true, &fp, jobj! {"limit_ns" => got}, &format!("tv_sec={sec} tv_usec={usec} -> limit {got} ns, expected {want}"));
                        std::process::exit(3);
                    } else {
                        out.end(case, Verdict::Held, "", true, &fp, jobj! {"limit_ns" => got, "saturated" => got == u64::MAX}, "");
                    }
                    continue;
                }
                let ms = match kind {
                    0 => 0,
                    1 => 1,
                    2 => 999,
                    3 => 1000,
                    4 => 86_400_000,
                    _ => rng.below(10_000_000),
                };
                let snd = (case / 30) % 2 == 1;
                out.begin(case, jobj! {"fn" => if snd {"send_time_limit"} else {"recv_time_limit"}, "option_ms" => ms});
                let (fd, peer) = socketpair();
                let t = tv(ms);
                let name = if snd { libc::SO_SNDTIMEO } else { libc::SO_RCVTIMEO };
                let r = unsafe { libc::setsockopt(fd, libc::SOL_SOCKET, name, std::ptr::from_ref(&t).cast(), size_of::<libc::timeval>() as socklen_t) };
                assert_eq!(0, r);
                let got = if snd { oc::send_time_limit(fd) } else { oc::recv_time_limit(fd) };
                let want = if ms == 0 { u64::MAX } else { native_limit(fd, name) };
                // the runtime caches limits per descriptor number: keep the descriptors open so that no number repeats within this process
                let _ = peer;
                let fp = format!("limit|{snd}|{kind}");
                if got != want {
                    out.end(case, Verdict::Violated, if ms == 0 { "C28/zero-socket-limit-not-unlimited" } else { "C28/socket-limit-wrong" }, true, &fp, jobj! {"limit_ns" => got}, &format!("option {ms} ms -> limit {got} ns, expected {want}"));
                    // the per-fd cache is keyed by descriptor number; a wrong entry would poison later cases in this process
                    std::process::exit(3);
                }
                out.end(case, Verdict::Held, "", true, &fp, jobj! {"limit_ns" => got}, "");
                // the runtime caches the limit per descriptor number: evict through the hooked close path is what C19 checks; here a fresh process per batch keeps cases independent
            }
        }
    }
}
