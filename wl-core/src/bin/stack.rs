//! C23 (stack growth) and C24 (memory faults inside coroutines). Every case may kill the
//! process; the driver resumes with the next case and classifies the death.
//! usage: stack <c23|c24> --seed S --from A --to B [--out F]
#![allow(clippy::too_many_lines)]
use mon::{case_range, jobj, Args, Out, Rng, Verdict, J};
use open_coroutine_core::common::constants::CoroutineState;
use open_coroutine_core::coroutine::suspender::Suspender;
use open_coroutine_core::coroutine::{Coroutine, StackInfo};
use open_coroutine_core::scheduler::{SchedulableCoroutine, SchedulableSuspender};
use std::sync::atomic::{AtomicUsize, Ordering};
use std::sync::{Arc, Mutex};

#[inline(never)]
fn sp() -> usize {
    let x = 0u8;
    std::hint::black_box(std::ptr::addr_of!(x) as usize)
}

/// Bounds [low, high) of the mapping that contains `addr` (from /proc/self/maps).
fn mapping_of(addr: usize) -> Option<(usize, usize)> {
    let maps = std::fs::read_to_string("/proc/self/maps").ok()?;
    for line in maps.lines() {
        let range = line.split_whitespace().next()?;
        let (a, b) = range.split_once('-')?;
        let (a, b) = (usize::from_str_radix(a, 16).ok()?, usize::from_str_radix(b, 16).ok()?);
        if a <= addr && addr < b {
            return Some((a, b));
        }
    }
    None
}

#[derive(Clone, Debug, Default)]
struct Probe {
    /// (depth, remaining bytes below sp in the segment sp is in, segment id = low address, red zone asked)
    at: Vec<(usize, usize, usize, usize)>,
}

type Co = SchedulableCoroutine<'static>;

/// Recursion that asks for room at every level. `frame` bytes of locals per level.
/// In a coroutine the segment bounds come from stack_infos(); on a thread from /proc/self/maps.
fn descend(depth: usize, frame: usize, red: usize, size: usize, probe: &Mutex<Probe>, panic_at: Option<usize>, in_co: bool) -> usize {
    let r = Co::maybe_grow_with(red, size, || {
        let here = sp();
        let (low, rem) = if in_co {
            let co = Co::current().expect("current coroutine");
            let infos = co.stack_infos();
            match infos.iter().find(|i| i.stack_bottom <= here && here < i.stack_top) {
                Some(i) => (i.stack_bottom, here - i.stack_bottom),
                None => (0, 0), // sp is in no segment the coroutine knows about
            }
        } else {
            match mapping_of(here) {
                Some((a, _)) => (a, here - a),
                None => (0, 0),
            }
        };
        probe.lock().unwrap().at.push((depth, rem, low, red));
        if panic_at == Some(depth) {
            panic!("scripted panic inside a growth callback");
        }
        if depth == 0 {
            return 1usize;
        }
        // burn `frame` bytes of this segment
        let mut pad = vec![0u8; 0];
        let mut local = [0u8; 256];
        local[depth % 256] = depth as u8;
        let chunks = frame / 256;
        let v = burn(chunks, depth, frame, red, size, probe, panic_at, in_co);
        pad.push(local[depth % 256]);
        std::hint::black_box(&pad);
        v + 1
    });
    r.expect("maybe_grow_with failed to allocate")
}

#[inline(never)]
#[allow(clippy::too_many_arguments)]
fn burn(chunks: usize, depth: usize, frame: usize, red: usize, size: usize, probe: &Mutex<Probe>, panic_at: Option<usize>, in_co: bool) -> usize {
    let mut buf = [0u8; 256];
    buf[chunks % 256] = 1;
    std::hint::black_box(&mut buf);
    if chunks == 0 {
        descend(depth - 1, frame, red, size, probe, panic_at, in_co)
    } else {
        let v = burn(chunks - 1, depth, frame, red, size, probe, panic_at, in_co);
        std::hint::black_box(&buf);
        v
    }
}

fn judge_probe(p: &Probe, slack: usize) -> Option<(String, String)> {
    for (d, rem, low, red) in &p.at {
        if *low == 0 {
            return Some(("callback-ran-outside-known-segments".into(), format!("depth {d}: stack pointer is in no segment the runtime reports")));
        }
        if *rem + slack < *red {
            return Some(("callback-ran-with-less-than-the-red-zone".into(), format!("depth {d}: {rem} bytes left in the segment, red zone requested {red}")));
        }
    }
    None
}

fn c23_case(seed: u64, case: u64) -> (Verdict, String, String, bool, String, J, J) {
    let mut rng = Rng::for_case(seed ^ 0xC23, case);
    let in_co = case % 2 == 0;
    // 0: plain descent; 1: descent with a caught panic deep inside, then a second full descent; 2: descend, come half-way back, descend again
    let shape = rng.below(3);
    // the workload itself must stay within the red zone between two growth points: a level burns `frame` plus ~2 KiB of
    // bookkeeping, a scripted panic needs ~12 KiB for the unwinder
    let red = if shape == 1 { *rng.pick(&[32 * 1024usize, 48 * 1024, 64 * 1024]) } else { *rng.pick(&[12 * 1024usize, 16 * 1024 + 4096, 32 * 1024, 48 * 1024]) };
    let size = *rng.pick(&[64 * 1024usize, 128 * 1024, 256 * 1024]).max(&(red * 2));
    let frame = *rng.pick(&[256usize, 1024, 2048, 4096, 8 * 1024]).min(&(red / 4));
    let total = rng.usize(200, 1200) * 1024; // bytes of recursion, several times a 128-256 KiB stack
    let depth = (total / (frame + 512)).clamp(2, 3000);
    let panic_depth = rng.usize(0, depth / 2);
    let desc = jobj! {"where" => if in_co {"coroutine"} else {"plain thread (256 KiB stack)"}, "red_zone" => red, "new_segment_size" => size, "frame_bytes" => frame,
        "recursion_depth" => depth, "shape" => ["descent", "caught panic in a callback, then a second descent", "descent, half-way back, second descent"][shape as usize]};
    let probe = Arc::new(Mutex::new(Probe::default()));
    let result: Arc<Mutex<Option<Result<(usize, usize), (String, String)>>>> = Arc::default();
    let infos_log: Arc<Mutex<Vec<Vec<StackInfo>>>> = Arc::default();
    let run = {
        let (probe, result, infos_log) = (probe.clone(), result.clone(), infos_log.clone());
        move || {
            let snapshot = || {
                if in_co {
                    infos_log.lock().unwrap().push(Co::current().expect("current").stack_infos().into_iter().collect());
                }
            };
            snapshot();
            let mut segs_first = 0usize;
            let r: Result<(usize, usize), (String, String)> = (|| {
                match shape {
                    0 => {
                        let v = descend(depth, frame, red, size, &probe, None, in_co);
                        if v != depth + 1 {
                            return Err(("callback-value-changed".into(), format!("got {v}, expected {}", depth + 1)));
                        }
                    }
                    1 => {
                        let r = std::panic::catch_unwind(std::panic::AssertUnwindSafe(|| descend(depth, frame, red, size, &probe, Some(panic_depth), in_co)));
                        if r.is_ok() {
                            return Err(("scripted-panic-vanished".into(), String::new()));
                        }
                        snapshot();
                        segs_first = probe.lock().unwrap().at.iter().map(|x| x.2).collect::<std::collections::HashSet<_>>().len();
                        // bookkeeping must be as before: the same descent must work again and get room everywhere
                        let v = descend(depth, frame, red, size, &probe, None, in_co);
                        if v != depth + 1 {
                            return Err(("callback-value-changed".into(), format!("got {v}, expected {}", depth + 1)));
                        }
                    }
                    _ => {
                        // two descents from inside one callback half-way down
                        let half = depth / 2;
                        let v = Co::maybe_grow_with(red, size, || {
                            let a = descend(half, frame, red, size, &probe, None, in_co);
                            let b = descend(half, frame, red, size, &probe, None, in_co);
                            a + b
                        })
                        .expect("grow");
                        if v != 2 * (half + 1) {
                            return Err(("callback-value-changed".into(), format!("got {v}")));
                        }
                    }
                }
                Ok((0, 0))
            })();
            snapshot();
            let segs = probe.lock().unwrap().at.iter().map(|x| x.2).collect::<std::collections::HashSet<_>>().len();
            *result.lock().unwrap() = Some(r.map(|_| (segs, segs_first)));
        }
    };
    if in_co {
        let mut co: Coroutine<(), (), Option<usize>> = Coroutine::new(
            Some(format!("c23-{seed}-{case}")),
            move |_: &SchedulableSuspender, ()| {
                run();
                Some(1)
            },
            Some(128 * 1024),
            None,
        )
        .expect("new");
        let r = co.resume();
        if !matches!(r, Ok(CoroutineState::Complete(Some(1)))) {
            let fp = format!("{in_co}|{red}|{size}|{frame}|{shape}");
            return (Verdict::Violated, "C23/coroutine/body-did-not-complete".into(), format!("resume returned {r:?}"), true, fp, J::Null, desc);
        }
    } else {
        let h = std::thread::Builder::new().stack_size(256 * 1024).spawn(run).expect("spawn");
        if h.join().is_err() {
            let fp = format!("{in_co}|{red}|{size}|{frame}|{shape}");
            return (Verdict::Violated, "C23/thread/unexpected-panic".into(), "thread panicked".into(), true, fp, J::Null, desc);
        }
    }
    let p = probe.lock().unwrap().clone();
    let res = result.lock().unwrap().take();
    let whr = if in_co { "coroutine" } else { "thread" };
    // the runtime counts the segment's guard page as room (its default red zone adds one page for that reason): allow page + 3 KiB
    let mut viol: Option<(String, String)> = judge_probe(&p, 4096 + 3 * 1024);
    let mut segs = 0;
    match res {
        Some(Ok((s, _))) => segs = s,
        Some(Err(e)) => viol = viol.or(Some(e)),
        None => viol = viol.or(Some(("no-result".into(), String::new()))),
    }
    if viol.is_none() && in_co {
        let l = infos_log.lock().unwrap();
        if l.windows(2).any(|w| w[0] != w[1]) {
            viol = Some(("stack-segments-not-restored".into(), format!("stack_infos() before/after: {:?}", l.iter().map(Vec::len).collect::<Vec<_>>())));
        }
    }
    let min_rem = p.at.iter().map(|x| x.1).min().unwrap_or(0);
    let obs = jobj! {"callbacks_measured" => p.at.len(), "distinct_segments_used" => segs, "least_room_seen_at_callback_entry" => min_rem};
    let fp = format!("{whr}|{red}|{size}|{frame}|{shape}|{}", segs.min(6));
    match viol {
        Some((k, d)) => (Verdict::Violated, format!("C23/{whr}/{k}{}", if shape == 1 { "/after-caught-panic" } else { "" }), d, true, fp, obs, desc),
        None => (Verdict::Held, String::new(), String::new(), segs >= 2, fp, obs, desc),
    }
}

// ====================================================================== C24
#[inline(never)]
fn runaway(n: usize) -> usize {
    let mut buf = [0u8; 512];
    buf[n % 512] = n as u8;
    std::hint::black_box(&mut buf);
    if n == usize::MAX {
        return 0;
    }
    runaway(n + 1) + buf[(n + 1) % 512] as usize
}

/// Fault (write to address 8) after moving the stack pointer to `new_sp`. Never returns: the trap handler abandons the coroutine.
#[cfg(target_arch = "x86_64")]
unsafe fn fault_with_sp(new_sp: usize) -> ! {
    core::arch::asm!("mov rsp, {0}", "mov qword ptr [8], 1", "ud2", in(reg) new_sp, options(noreturn));
}

fn c24_case(seed: u64, case: u64) -> (Verdict, String, String, bool, String, J, J) {
    let mut rng = Rng::for_case(seed ^ 0xC24, case);
    // 0 null write, 1 wild read, 2 runaway recursion on the initial segment, 3 runaway recursion on a grown segment, 4 null write on a grown segment
    // (all of these fault with the stack pointer inside a segment: the guard page belongs to the segment),
    // 5..=9 fault while the stack pointer has been moved to a chosen place: 5 heap buffer (outside), 6 exactly the segment top (outside),
    // 7 top-16 (inside), 8 segment bottom (inside), 9 bottom-16 (outside)
    let kind = rng.below(10);
    let suspends = rng.usize(0, 5);
    let healthy_before = rng.usize(0, 3);
    let healthy_after = rng.usize(1, 3);
    let desc = jobj! {"fault" => ["null write", "wild read", "runaway recursion on the initial segment", "runaway recursion on a grown segment", "null write on a grown segment",
        "null write with sp moved into a heap buffer", "null write with sp == segment top", "null write with sp == top-16", "null write with sp == segment bottom", "null write with sp == bottom-16"][kind as usize],
        "suspends_before_fault" => suspends, "healthy_coroutines_before" => healthy_before, "healthy_coroutines_after" => healthy_after};
    static COUNTER: AtomicUsize = AtomicUsize::new(0);
    let healthy = |tag: usize| -> Result<(), (String, String)> {
        let mut co: Coroutine<(), (), Option<usize>> = Coroutine::new(
            None,
            move |s: &SchedulableSuspender, ()| {
                s.suspend();
                let _ = COUNTER.fetch_add(1, Ordering::SeqCst);
                s.suspend();
                Some(tag * 3)
            },
            None,
            None,
        )
        .expect("new");
        for i in 0..3 {
            match co.resume() {
                Ok(CoroutineState::Suspend((), 0)) if i < 2 => {}
                Ok(CoroutineState::Complete(Some(v))) if i == 2 && v == tag * 3 => {}
                other => return Err(("healthy-coroutine-affected".into(), format!("healthy coroutine {tag} resume #{i} returned {other:?}"))),
            }
        }
        Ok(())
    };
    let mut viol: Option<(String, String)> = None;
    for i in 0..healthy_before {
        if let Err(e) = healthy(i) {
            viol = Some(e);
        }
    }
    let mut faulty: Coroutine<(), (), Option<usize>> = Coroutine::new(
        Some(format!("c24-{seed}-{case}")),
        move |s: &SchedulableSuspender, ()| {
            for _ in 0..suspends {
                s.suspend();
            }
            let r = match kind {
                0 => unsafe {
                    std::ptr::write_volatile(std::hint::black_box(8usize) as *mut u64, 1);
                    1
                },
                1 => unsafe { std::ptr::read_volatile(std::hint::black_box(0x10usize) as *const u64) as usize },
                2 => runaway(0),
                3 => Co::maybe_grow_with(usize::MAX / 2, 64 * 1024, || runaway(0)).expect("grow"),
                4 => Co::maybe_grow_with(usize::MAX / 2, 64 * 1024, || unsafe {
                    std::ptr::write_volatile(std::hint::black_box(8usize) as *mut u64, 1);
                    1usize
                })
                .expect("grow"),
                k => {
                    let co = Co::current().expect("current");
                    let seg = *co.stack_infos().front().expect("segment");
                    let heap: &'static mut [u8] = Box::leak(vec![0u8; 65536].into_boxed_slice());
                    let target = match k {
                        5 => heap.as_ptr() as usize + 32768,
                        6 => seg.stack_top,
                        7 => seg.stack_top - 16,
                        8 => seg.stack_bottom,
                        _ => seg.stack_bottom - 16,
                    };
                    unsafe { fault_with_sp(target) }
                }
            };
            Some(r)
        },
        Some(64 * 1024),
        None,
    )
    .expect("new");
    let mut last = None;
    for i in 0..=suspends {
        let r = faulty.resume();
        if i < suspends {
            if !matches!(r, Ok(CoroutineState::Suspend((), 0))) {
                viol = viol.or(Some(("faulty-coroutine-misbehaved-before-fault".into(), format!("{r:?}"))));
            }
        } else {
            last = Some(r);
        }
    }
    let want = if matches!(kind, 5 | 6 | 9) { "stack overflow" } else { "invalid memory reference" };
    let got = format!("{last:?}");
    match &last {
        Some(Ok(CoroutineState::Error(m))) => {
            if *m != want {
                viol = viol.or(Some((format!("fault-misclassified/{}", if want == "stack overflow" { "overflow-reported-as-invalid-reference" } else { "invalid-reference-reported-as-overflow" }),
                    format!("fault kind {kind}: reported {m:?}, expected {want:?}"))));
            }
        }
        other => viol = viol.or(Some(("fault-not-reported-as-error".into(), format!("{other:?}")))),
    }
    if viol.is_none() {
        // the same coroutine stays failed
        match faulty.resume() {
            Ok(CoroutineState::Error(m)) if m == want => {}
            other => viol = Some(("failed-coroutine-changed-outcome".into(), format!("{other:?}"))),
        }
    }
    for i in 0..healthy_after {
        if let Err(e) = healthy(100 + i) {
            viol = viol.or(Some(e));
        }
    }
    // the resuming thread can still use its own stack and the heap normally
    let v: Vec<u64> = (0..1000).collect();
    if v.iter().sum::<u64>() != 499_500 {
        viol = viol.or(Some(("resuming-thread-corrupted".into(), String::new())));
    }
    drop(faulty);
    let fp = format!("{kind}|{suspends}|{healthy_before}");
    let obs = jobj! {"reported" => got, "healthy_steps_run" => COUNTER.load(Ordering::SeqCst)};
    match viol {
        Some((k, d)) => (Verdict::Violated, format!("C24/{k}"), d, true, fp, obs, desc),
        None => (Verdict::Held, String::new(), String::new(), true, fp, obs, desc),
    }
}

fn main() {
    let args = Args::parse();
    let out = Out::open(&args);
    wl_core::quiet_panics();
    let seed = args.u64("seed", 1);
    let (a, b) = case_range(&args, 8);
    let which = args.pos.first().cloned().unwrap_or_default();
    let _ = Suspender::<(), ()>::current();
    for case in a..b {
        let pre = match which.as_str() {
            "c23" => jobj! {"case" => case, "where" => if case % 2 == 0 {"coroutine"} else {"thread"}},
            _ => jobj! {"case" => case},
        };
        out.begin(case, pre);
        let (v, sig, detail, nt, fp, obs, desc) = match which.as_str() {
            "c23" => c23_case(seed, case),
            "c24" => c24_case(seed, case),
            other => {
                eprintln!("unknown subcommand {other}");
                std::process::exit(64);
            }
        };
        out.line(&jobj! {"t" => "desc", "case" => case, "desc" => desc});
        out.end(case, v, &sig, nt, &fp, obs, &detail);
    }
}
