//! Standalone CoroutinePool workloads: C11 (worker accounting), C05 (single-worker priority order), C12 (pool lifecycle).
//! One case per process (pools share process-wide queues, so cases must not share a process).
#![allow(clippy::too_many_lines, clippy::type_complexity)]
use mon::{case_range, jobj, Args, Out, Rng, Verdict, J};
use open_coroutine_core::co_pool::CoroutinePool;
use open_coroutine_core::common::constants::PoolState;
use open_coroutine_core::scheduler::SchedulableSuspender;
use std::sync::atomic::{AtomicI64, AtomicUsize, Ordering};
use std::sync::{Arc, Mutex};
use std::time::{Duration, Instant};

static LIVE: AtomicI64 = AtomicI64::new(0);
static CREATED: AtomicUsize = AtomicUsize::new(0);
static PREFIX: Mutex<String> = Mutex::new(String::new());

fn observer(kind: &'static str, _a: u64, _b: u64, text: &str) {
    let p = PREFIX.lock().unwrap();
    if p.is_empty() || !text.starts_with(p.as_str()) {
        return;
    }
    match kind {
        "co_new" => {
            LIVE.fetch_add(1, Ordering::SeqCst);
            CREATED.fetch_add(1, Ordering::SeqCst);
        }
        "co_drop" => {
            LIVE.fetch_sub(1, Ordering::SeqCst);
        }
        _ => {}
    }
}

struct Shared<T>(*const T);
unsafe impl<T> Send for Shared<T> {}
unsafe impl<T> Sync for Shared<T> {}

#[derive(Clone, Copy, Debug)]
enum TStep {
    Suspend,
    Delay(u64),
    /// the task cancels its own worker coroutine (Suspender::cancel)
    SelfCancel,
}

// ====================================================================== C11
fn c11(seed: u64, case: u64, out: &Out) {
    let mut rng = Rng::for_case(seed ^ 0xC11, case);
    // min_size > 0 is not explored: an idle core worker never yields (it blocks 1 ms and polls again inside one scheduling pass),
    // so a pass with nothing to do would not return without the preemptive feature - outside this property
    let (min, max) = *rng.pick(&[(0usize, 1usize), (0, 2), (0, 2), (0, 4), (0, 8), (0, 16)]);
    // 30 s: idle workers legitimately linger, but a stop must not wait for their keep-alive time
    let keep_alive_ms = *rng.pick(&[0u64, 5, 5, 30_000]);
    let lingering = keep_alive_ms > 1000;
    let ntasks = rng.usize(1, 24);
    // half of the cases are built so that workers end abnormally while tasks are still queued: few workers, long delays, early cancels
    let pressure = case % 2 == 1;
    let name = format!("c11pool-{seed}-{case}");
    *PREFIX.lock().unwrap() = format!("{name}@");
    open_coroutine_core::verif::set_observer(Some(observer));
    let progs: Vec<(Vec<TStep>, bool)> = (0..ntasks)
        .map(|_| {
            let k = if pressure { rng.usize(1, 3) } else { rng.usize(0, 3) };
            ((0..k).map(|_| if rng.chance(if pressure { 1 } else { 2 }, 4) { TStep::Suspend } else if pressure && rng.chance(1, 8) { TStep::SelfCancel } else { TStep::Delay(rng.range(5, 60)) }).collect(), rng.chance(1, 6))
        })
        .collect();
    // cancel plan: (after pass p, task index)
    let ncancel = if pressure { rng.usize(1, 1 + ntasks / 2) } else { rng.usize(0, 1 + ntasks / 3) };
    let cancels: Vec<(usize, usize)> = (0..ncancel).map(|_| (rng.usize(0, if pressure { 2 } else { 4 }), rng.usize(0, ntasks - 1))).collect();
    out.begin(case, jobj! {"min_size" => min, "max_size" => max, "keep_alive_ms" => keep_alive_ms, "tasks" => ntasks,
        "programs" => progs.iter().take(10).map(|p| format!("{:?}{}", p.0, if p.1 {" panic"} else {""})).collect::<Vec<_>>(),
        "cancel_requests_after_pass" => cancels.iter().map(|(p, t)| format!("pass {p}: task {t}")).collect::<Vec<_>>()});
    let mut pool = CoroutinePool::new(name, 64 * 1024, min, max, keep_alive_ms * 1_000_000);
    let over_max = Arc::new(AtomicUsize::new(0));
    let finished = Arc::new(AtomicUsize::new(0));
    let self_cancelled = Arc::new(AtomicUsize::new(0));
    let mut ids = vec![];
    for (i, (steps, panics)) in progs.iter().enumerate() {
        let (steps, panics, om, fin, sc) = (steps.clone(), *panics, over_max.clone(), finished.clone(), self_cancelled.clone());
        let id = pool
            .submit_task(
                None,
                move |_| {
                    for st in &steps {
                        if let Some(p) = CoroutinePool::current() {
                            if p.get_running_size() > p.get_max_size() {
                                om.fetch_add(1, Ordering::SeqCst);
                            }
                        }
                        if let Some(s) = SchedulableSuspender::current() {
                            match *st {
                                TStep::Suspend => s.suspend(),
                                TStep::Delay(ms) => s.delay(Duration::from_millis(ms)),
                                TStep::SelfCancel => {
                                    sc.fetch_add(1, Ordering::SeqCst);
                                    s.cancel()
                                }
                            }
                        }
                    }
                    fin.fetch_add(1, Ordering::SeqCst);
                    if panics {
                        panic!("c11 scripted panic {i}");
                    }
                    Some(i)
                },
                None,
                Some((i % 3) as i64),
            )
            .expect("submit");
        ids.push(id);
    }
    let mut viol: Option<(String, String)> = None;
    let mut samples = 0usize;
    let mut max_running_seen = 0usize;
    let mut cancelled: std::collections::HashSet<usize> = std::collections::HashSet::new();
    let t0 = Instant::now();
    let mut pass = 0usize;
    let mut idle_passes = 0;
    while t0.elapsed() < Duration::from_secs(8) {
        for (p, t) in &cancels {
            if *p == pass {
                CoroutinePool::try_cancel_task(ids[*t]);
                cancelled.insert(*t);
            }
        }
        pass += 1;
        if let Err(e) = pool.try_timed_schedule_task(Duration::from_millis(20)) {
            viol = Some(("scheduling-pass-failed".into(), e.to_string()));
            break;
        }
        // quiescent point: no coroutine of this pool is running now
        let running = pool.get_running_size();
        let live = LIVE.load(Ordering::SeqCst);
        samples += 1;
        max_running_seen = max_running_seen.max(running);
        if running as i64 != live {
            viol = Some((if (running as i64) > live { "running-size-counts-dead-workers".into() } else { "running-size-misses-live-workers".into() },
                format!("after pass {pass}: get_running_size()={running} but {live} worker coroutines of this pool are alive ({} cancels requested so far)", cancels.iter().filter(|c| c.0 < pass).count())));
            break;
        }
        if running > max {
            viol = Some(("running-size-exceeds-max".into(), format!("after pass {pass}: running {running} > max {max}")));
            break;
        }
        let done = finished.load(Ordering::SeqCst);
        if done + cancelled.len() + self_cancelled.load(Ordering::SeqCst) >= ntasks && pool.is_empty() {
            // a cancelled worker may still be parked in a delay: it is discarded when the delay is over (at most 3 x 60 ms)
            idle_passes += 1;
            if (idle_passes > 8 && (running <= min || lingering)) || idle_passes > 150 {
                break;
            }
            std::thread::sleep(Duration::from_millis(keep_alive_ms.min(5) + 2));
        }
    }
    if viol.is_none() && over_max.load(Ordering::SeqCst) > 0 {
        viol = Some(("running-size-exceeds-max".into(), format!("seen from inside tasks {} times", over_max.load(Ordering::SeqCst))));
    }
    let running_idle = pool.get_running_size();
    if viol.is_none() && running_idle > min && !lingering {
        viol = Some(("running-size-does-not-return-to-idle-level".into(), format!("all work done or cancelled, {running_idle} workers still counted (min_size {min}), live workers {}", LIVE.load(Ordering::SeqCst))));
    }
    let ts = Instant::now();
    let sr = pool.stop(Duration::from_secs(3));
    let stop_ms = ts.elapsed().as_millis() as u64;
    if viol.is_none() && (sr.is_err() || stop_ms >= 1000) {
        viol = Some(("stop-waits-out-its-timeout-although-all-work-is-done".into(), format!("stop(3 s) took {stop_ms} ms and returned {sr:?}; running size {} live workers {}", pool.get_running_size(), LIVE.load(Ordering::SeqCst))));
    }
    if viol.is_none() && pool.get_running_size() != 0 {
        viol = Some(("running-size-not-zero-after-stop".into(), format!("{}", pool.get_running_size())));
    }
    let obs = jobj! {"passes" => pass, "quiescent_samples" => samples, "worker_coroutines_created" => CREATED.load(Ordering::SeqCst), "max_running_seen" => max_running_seen,
        "tasks_finished" => finished.load(Ordering::SeqCst), "tasks_cancelled" => cancelled.len(), "tasks_that_cancelled_themselves" => self_cancelled.load(Ordering::SeqCst), "stop_ms" => stop_ms};
    let fp = format!("{min}|{max}|{keep_alive_ms}|{ntasks}|{:?}", cancels);
    let nontrivial = CREATED.load(Ordering::SeqCst) >= 2 || !cancels.is_empty();
    if viol.is_none() {
        // a pool that stopped cleanly must also be droppable: Drop stops again and asserts the Stopped state and a running size of 0
        if let Err(p) = std::panic::catch_unwind(std::panic::AssertUnwindSafe(move || drop(pool))) {
            let msg = p.downcast_ref::<String>().cloned().or_else(|| p.downcast_ref::<&str>().map(|s| (*s).to_string())).unwrap_or_default();
            viol = Some(("dropping-the-stopped-pool-panicked".into(), msg));
        }
    } else {
        std::mem::forget(pool); // Drop would re-run stop() and assert; the verdict is already in
    }
    match viol {
        Some((k, d)) => out.end(case, Verdict::Violated, &format!("C11/{k}{}", if cancels.is_empty() { "" } else { "/with-cancels" }), true, &fp, obs, &d),
        None => out.end(case, Verdict::Held, "", nontrivial, &fp, obs, ""),
    }
}

// ====================================================================== C05 (pool level)
fn c05(seed: u64, case: u64, out: &Out) {
    let mut rng = Rng::for_case(seed ^ 0x5C05, case);
    let n = rng.usize(2, 256);
    let palette = rng.below(3);
    let prios: Vec<i64> = (0..n)
        .map(|_| match palette {
            0 => rng.below(3) as i64 - 1,
            1 => *rng.pick(&[i64::MIN, -5, 0, 0, 9, i64::MAX]),
            _ => rng.next_u64() as i64 >> rng.below(60),
        })
        .collect();
    out.begin(case, jobj! {"tasks" => n, "priorities(first 16)" => prios.iter().take(16).map(|p| p.to_string()).collect::<Vec<_>>(), "pool_max_size" => 1});
    let mut pool = CoroutinePool::new(format!("c05pool-{seed}-{case}"), 64 * 1024, 0, 1, 0);
    let order: Arc<Mutex<Vec<usize>>> = Arc::default();
    for (i, p) in prios.iter().enumerate() {
        let o = order.clone();
        let _ = pool.submit_task(None, move |_| {
            o.lock().unwrap().push(i);
            None
        }, None, Some(*p)).expect("submit");
    }
    let t0 = Instant::now();
    while order.lock().unwrap().len() < n && t0.elapsed() < Duration::from_secs(10) {
        let _ = pool.try_timed_schedule_task(Duration::from_millis(50));
    }
    let got = order.lock().unwrap().clone();
    let mut want: Vec<usize> = (0..n).collect();
    want.sort_by_key(|i| prios[*i]); // stable: FIFO among equals
    let _ = pool.stop(Duration::from_secs(3));
    std::mem::forget(pool);
    let ties = { let mut s = prios.clone(); s.sort_unstable(); s.dedup(); s.len() < n };
    let obs = jobj! {"tasks_started" => got.len(), "equal_priorities_present" => ties};
    let fp = format!("{n}|{palette}|{}", mon::fp_of(&format!("{prios:?}")));
    if got != want {
        let pos = got.iter().zip(want.iter()).position(|(a, b)| a != b).unwrap_or(got.len().min(want.len()));
        out.end(case, Verdict::Violated, if got.len() != n { "C05/pool/not-every-task-started" } else { "C05/pool/start-order-differs-from-priority-order" }, true, &fp, obs,
            &format!("position {pos}: started task {:?} (priority {:?}), priority order says task {:?} (priority {:?})", got.get(pos), got.get(pos).map(|i| prios[*i]), want.get(pos), want.get(pos).map(|i| prios[*i])));
    } else {
        out.end(case, Verdict::Held, "", ties, &fp, obs, "");
    }
}

// ====================================================================== C12 (standalone pool)
fn c12(seed: u64, case: u64, out: &Out) {
    let mut rng = Rng::for_case(seed ^ 0x5C12, case);
    let n = rng.usize(1, 12);
    let passes_before_stop = rng.usize(0, 3);
    let stop_budget_ms = *rng.pick(&[0u64, 0, 2, 2000]);
    let waiter_on = rng.usize(0, n - 1);
    let delays: Vec<u64> = (0..n).map(|_| if rng.chance(1, 3) { rng.range(20, 200) } else { 0 }).collect();
    out.begin(case, jobj! {"tasks" => n, "task_delays_ms" => delays.clone(), "scheduling_passes_before_stop" => passes_before_stop, "stop_budget_ms" => stop_budget_ms, "a_second_thread_waits_on_task" => waiter_on, "its_own_wait_timeout_ms" => 10_000});
    let mut pool = CoroutinePool::new(format!("c12pool-{seed}-{case}"), 64 * 1024, 0, 4, 0);
    let ran: Arc<Mutex<Vec<usize>>> = Arc::default();
    let mut ids = vec![];
    let mut states = vec![pool.state()];
    for (i, d) in delays.iter().enumerate() {
        let (r, d) = (ran.clone(), *d);
        ids.push(pool.submit_task(None, move |_| {
            if d > 0 {
                if let Some(s) = SchedulableSuspender::current() {
                    s.delay(Duration::from_millis(d));
                }
            }
            r.lock().unwrap().push(i);
            Some(i)
        }, None, None).expect("submit while running"));
    }
    let sp = Shared(std::ptr::from_ref(&pool));
    let wid = ids[waiter_on];
    let waiter = std::thread::spawn(move || {
        let sp = sp;
        let p = unsafe { &*sp.0 };
        let t0 = Instant::now();
        let r = p.wait_task_result(wid, Duration::from_secs(10)).map(|r| r.map_err(str::to_string)).map_err(|e| e.kind());
        (r, t0.elapsed(), Instant::now())
    });
    std::thread::sleep(Duration::from_millis(5));
    for _ in 0..passes_before_stop {
        let _ = pool.try_timed_schedule_task(Duration::from_millis(10));
        states.push(pool.state());
    }
    let ran_before: Vec<usize> = ran.lock().unwrap().clone();
    let ts = Instant::now();
    let sr = pool.stop(Duration::from_millis(stop_budget_ms));
    let stop_returned = Instant::now();
    let stop_ms = ts.elapsed().as_millis() as u64;
    states.push(pool.state());
    let late = pool.submit_task(None, |_| None, None, None);
    let sr2 = pool.stop(Duration::from_millis(stop_budget_ms));
    states.push(pool.state());
    let (wres, _waited, wret) = waiter.join().expect("waiter");
    let mut viol: Option<(String, String)> = None;
    // state sequence must be a prefix-respecting walk Running -> Stopping -> Stopped
    let rank = |s: &PoolState| match s {
        PoolState::Running => 0,
        PoolState::Stopping => 1,
        PoolState::Stopped => 2,
    };
    if states.windows(2).any(|w| rank(&w[1]) < rank(&w[0])) {
        viol = Some(("pool-state-went-backwards".into(), format!("{states:?}")));
    }
    if late.is_ok() {
        viol = viol.or(Some(("submission-accepted-after-stop-began".into(), format!("state {:?}", pool.state()))));
    }
    let ran_now: Vec<usize> = ran.lock().unwrap().clone();
    if sr.is_ok() && pool.state() == PoolState::Stopped && stop_budget_ms >= 2000 && ran_now.len() < n {
        viol = viol.or(Some(("stop-reported-success-before-accepted-tasks-ran".into(), format!("{} of {n} ran; stop took {stop_ms} ms", ran_now.len()))));
    }
    // the waiter: either its task's own result, or an error promptly after stop returned
    let lag = wret.saturating_duration_since(stop_returned);
    match &wres {
        Ok(Ok(Some(v))) if *v == waiter_on => {}
        Ok(Err(_)) | Err(_) if ran_now.contains(&waiter_on) && !matches!(wres, Err(std::io::ErrorKind::TimedOut)) => {}
        Ok(Err(_)) => {
            if lag > Duration::from_secs(1) {
                viol = viol.or(Some(("waiter-not-settled-promptly-after-stop".into(), format!("returned {lag:?} after stop"))));
            }
        }
        Err(k) => {
            viol = viol.or(Some(("waiter-of-task-that-never-ran-slept-out-its-own-timeout".into(), format!("wait returned Err({k:?}) {lag:?} after stop returned ({sr:?}); its task ran: {}", ran_now.contains(&waiter_on)))));
        }
        other => viol = viol.or(Some(("waiter-got-another-tasks-result".into(), format!("{other:?}")))),
    }
    let obs = jobj! {"states" => format!("{states:?}"), "stop_result" => format!("{sr:?} / {sr2:?}"), "stop_ms" => stop_ms, "tasks_ran_before_stop" => ran_before.len(), "tasks_ran_total" => ran_now.len(),
        "waiter_result" => format!("{wres:?}"), "waiter_returned_ms_after_stop" => lag.as_millis() as u64, "late_submission_rejected" => late.is_err()};
    let fp = format!("{n}|{passes_before_stop}|{stop_budget_ms}|{waiter_on}|{delays:?}");
    std::mem::forget(pool);
    match viol {
        Some((k, d)) => out.end(case, Verdict::Violated, &format!("C12/pool/{k}"), true, &fp, obs, &d),
        None => out.end(case, Verdict::Held, "", ran_now.len() < n || delays.iter().any(|d| *d > 0), &fp, obs, ""),
    }
}

fn main() {
    let args = Args::parse();
    let out = Out::open(&args);
    wl_core::quiet_panics();
    let seed = args.u64("seed", 1);
    let (a, _) = case_range(&args, 1);
    match args.pos.first().map(String::as_str) {
        Some("c11") => c11(seed, a, &out),
        Some("c05") => c05(seed, a, &out),
        Some("c12") => c12(seed, a, &out),
        other => {
            eprintln!("unknown subcommand {other:?}");
            std::process::exit(64);
        }
    }
    let _ = J::Null;
    std::process::exit(0);
}
