//! EventLoops-level workloads (one process = one configuration = one case):
//! C01 exactly-once, C02 join, C12 stop, C13 cancel, C15 concurrency of blocked coroutines.
//! usage: loops <c01|c02|c12|c13|c15> --seed S --case I [--out F]     (the driver passes --from I --to I+1)
#![allow(clippy::too_many_lines, clippy::type_complexity)]
use mon::{case_range, jobj, Args, Out, Rng, Verdict, J};
use open_coroutine_core::config::Config;
use open_coroutine_core::net::EventLoops;
use open_coroutine_core::scheduler::SchedulableSuspender;
use std::sync::atomic::{AtomicBool, AtomicU32, AtomicU64, AtomicUsize, Ordering};
use std::sync::{Arc, Mutex};
use std::time::{Duration, Instant};
use wl_core::mono_ns;

fn init(loops: usize, max_size: usize, min_size: usize, keep_alive_ns: u64) {
    let mut cfg = Config::single();
    let _ = cfg.set_event_loop_size(loops).set_min_size(min_size).set_max_size(max_size).set_keep_alive_time(keep_alive_ns).set_hook(false);
    EventLoops::init(&cfg);
}

/// What the runtime's own threads (named `open-coroutine-...`) did during 400 ms, read from /proc/self/task: for each thread
/// (voluntary context switches, CPU time in ms). An idle but healthy event loop wakes every 10 ms and burns next to nothing;
/// a loop thread that is wedged either spins (no voluntary switches, ~400 ms of CPU) or never wakes (neither).
fn loop_thread_activity() -> Vec<(u64, u64)> {
    fn sample() -> std::collections::HashMap<String, (u64, u64)> {
        let mut m = std::collections::HashMap::new();
        if let Ok(rd) = std::fs::read_dir("/proc/self/task") {
            for e in rd.flatten() {
                let p = e.path();
                let comm = std::fs::read_to_string(p.join("comm")).unwrap_or_default();
                if !comm.starts_with("open-coroutine-") {
                    continue;
                }
                let st = std::fs::read_to_string(p.join("status")).unwrap_or_default();
                let v = st.lines().find_map(|l| l.strip_prefix("voluntary_ctxt_switches:")).and_then(|x| x.trim().parse::<u64>().ok()).unwrap_or(0);
                // utime + stime are fields 14 and 15 of stat (after the parenthesised name), in clock ticks of 10 ms
                let stat = std::fs::read_to_string(p.join("stat")).unwrap_or_default();
                let rest: Vec<&str> = stat.rsplit(')').next().unwrap_or("").split_whitespace().collect();
                let ticks = rest.get(11).and_then(|x| x.parse::<u64>().ok()).unwrap_or(0) + rest.get(12).and_then(|x| x.parse::<u64>().ok()).unwrap_or(0);
                m.insert(e.file_name().to_string_lossy().to_string(), (v, ticks * 10));
            }
        }
        m
    }
    let a = sample();
    std::thread::sleep(Duration::from_millis(400));
    let b = sample();
    a.iter().filter_map(|(k, v)| b.get(k).map(|w| (w.0.saturating_sub(v.0), w.1.saturating_sub(v.1)))).collect()
}

fn cpu_clock_of_self() -> u64 {
    let mut c: libc::clockid_t = 0;
    unsafe { libc::pthread_getcpuclockid(libc::pthread_self(), &mut c) };
    c as u64
}

fn cpu_ns(clock: u64) -> u64 {
    let mut ts = libc::timespec { tv_sec: 0, tv_nsec: 0 };
    if unsafe { libc::clock_gettime(clock as libc::clockid_t, &mut ts) } != 0 {
        return 0;
    }
    ts.tv_sec as u64 * 1_000_000_000 + ts.tv_nsec as u64
}

#[derive(Clone, Copy, Debug)]
enum Body {
    Instant,
    Suspend,
    Delay1ms,
    Busy,
}

struct SubmitSlot {
    clock: AtomicU64,
    in_call: AtomicU64, // 0 = not inside submit_task, else uid+1
    done: AtomicBool,
}

// ====================================================================== C01
static REJECTED: Mutex<Vec<usize>> = Mutex::new(Vec::new());

fn c01(seed: u64, case: u64, out: &Out) {
    let mut rng = Rng::for_case(seed ^ 0xC01, case);
    let loops = *rng.pick(&[1usize, 2, 4, 8]);
    let submitters = *rng.pick(&[1usize, 2, 4, 16]);
    let per = *rng.pick(&[200usize, 600, 2000, 6000]);
    let prio_mix = rng.below(3);
    let body = *rng.pick(&[Body::Instant, Body::Instant, Body::Suspend, Body::Delay1ms, Body::Busy]);
    let max_size = *rng.pick(&[1usize, 4, 256]);
    // a delayed task is only resumed at the next 10 ms slice of the loop: keep delay workloads small enough to finish within the budget
    let per = if matches!(body, Body::Delay1ms) { per.min(3000 / submitters).max(50) } else { per };
    let total = submitters * per;
    out.begin(case, jobj! {"event_loops" => loops, "submitter_threads" => submitters, "tasks_per_submitter" => per, "priority_mix" => ["constant", "5 levels", "random i64 incl. MIN/MAX"][prio_mix as usize],
        "task_body" => format!("{body:?}"), "pool_max_size" => max_size});
    init(loops, max_size, 0, 0);
    let counts: Arc<Vec<AtomicU32>> = Arc::new((0..total).map(|_| AtomicU32::new(0)).collect());
    let exec_threads: Arc<Mutex<std::collections::HashSet<u64>>> = Arc::default();
    let executed = Arc::new(AtomicUsize::new(0));
    let slots: Arc<Vec<SubmitSlot>> = Arc::new((0..submitters).map(|_| SubmitSlot { clock: AtomicU64::new(0), in_call: AtomicU64::new(0), done: AtomicBool::new(false) }).collect());
    let start = Arc::new(std::sync::Barrier::new(submitters + 1));
    let mut ths = vec![];
    let t_first = Arc::new(AtomicU64::new(0));
    let t_last_start = Arc::new(AtomicU64::new(0));
    for s in 0..submitters {
        let (counts, slots, start, exec_threads, executed) = (counts.clone(), slots.clone(), start.clone(), exec_threads.clone(), executed.clone());
        let (t_first, t_last_start) = (t_first.clone(), t_last_start.clone());
        let mut r = Rng::for_case(seed ^ 0x5AB, case * 64 + s as u64);
        ths.push(std::thread::spawn(move || {
            slots[s].clock.store(cpu_clock_of_self(), Ordering::SeqCst);
            start.wait();
            t_last_start.fetch_max(mono_ns(), Ordering::SeqCst);
            let mut mine = vec![];
            for k in 0..per {
                let uid = s * per + k;
                let prio = match prio_mix {
                    0 => 0,
                    1 => r.below(5) as i64 - 2,
                    _ => *r.pick(&[i64::MIN, i64::MAX, 0, -1, 1, 7]) ^ (r.below(2) as i64),
                };
                let (c2, et, ex) = (counts.clone(), exec_threads.clone(), executed.clone());
                slots[s].in_call.store(uid as u64 + 1, Ordering::SeqCst);
                let h = EventLoops::submit_task(
                    None,
                    move |_| {
                        c2[uid].fetch_add(1, Ordering::SeqCst);
                        ex.fetch_add(1, Ordering::SeqCst);
                        if uid % 64 == 0 {
                            et.lock().unwrap().insert(unsafe { libc::pthread_self() } as u64);
                        }
                        match body {
                            Body::Instant => {}
                            Body::Suspend => {
                                if let Some(s) = SchedulableSuspender::current() {
                                    s.suspend();
                                }
                            }
                            Body::Delay1ms => {
                                if let Some(s) = SchedulableSuspender::current() {
                                    s.delay(Duration::from_millis(1));
                                }
                            }
                            Body::Busy => {
                                let t = Instant::now();
                                while t.elapsed() < Duration::from_micros(50) {
                                    std::hint::spin_loop();
                                }
                            }
                        }
                        Some(uid)
                    },
                    None,
                    Some(prio),
                );
                slots[s].in_call.store(0, Ordering::SeqCst);
                if h.id().is_err() {
                    // the runtime refused the task (an error handle): it was never accepted, so it is not "lost"
                    REJECTED.lock().unwrap().push(uid);
                }
                mine.push(h);
            }
            t_first.fetch_max(mono_ns(), Ordering::SeqCst);
            std::mem::forget(mine); // JoinHandle is !Send; results simply stay in the pool
            slots[s].done.store(true, Ordering::SeqCst);
        }));
    }
    start.wait();
    // ---- watchdog over submit calls (C04's clause), then quiescence detection
    let mut last: Vec<(u64, u64)> = vec![(0, 0); submitters];
    let t0 = Instant::now();
    let mut stuck: Option<(usize, u64)> = None;
    while !slots.iter().all(|s| s.done.load(Ordering::SeqCst)) {
        std::thread::sleep(Duration::from_millis(10));
        for (i, s) in slots.iter().enumerate() {
            let cur = s.in_call.load(Ordering::SeqCst);
            let ck = s.clock.load(Ordering::SeqCst);
            if cur == 0 || ck == 0 {
                last[i] = (0, 0);
                continue;
            }
            let cpu = cpu_ns(ck);
            if last[i].0 != cur {
                last[i] = (cur, cpu);
            } else if cpu.saturating_sub(last[i].1) > 1_000_000_000 {
                stuck = Some((i, cur - 1));
            }
        }
        if stuck.is_some() || t0.elapsed() > Duration::from_secs(120) {
            break;
        }
    }
    if let Some((i, uid)) = stuck {
        out.end(case, Verdict::Inconclusive, "blocked-by:C04/submit_task-never-returns", false, "", jobj! {"stuck_submitter" => i, "uid" => uid}, "a submitter burned > 1 s of CPU inside one submit_task call");
        std::process::exit(3);
    }
    if !slots.iter().all(|s| s.done.load(Ordering::SeqCst)) {
        out.end(case, Verdict::Inconclusive, "harness/submitters-not-finished", false, "", J::Null, "outer watchdog");
        std::process::exit(3);
    }
    // all submitted. Wait until every task ran, or nothing new runs for 3 s while probes show the loops are alive
    let mut last_exec = executed.load(Ordering::SeqCst);
    let mut last_progress = Instant::now();
    let probe_runs = Arc::new(AtomicUsize::new(0));
    let mut probes_sent = 0usize;
    let mut dup: Option<usize> = None;
    let deadline = Instant::now() + Duration::from_secs(90);
    let mut probe_handles = vec![];
    loop {
        let e = executed.load(Ordering::SeqCst);
        if e != last_exec {
            last_exec = e;
            last_progress = Instant::now();
        }
        if let Some(i) = counts.iter().position(|c| c.load(Ordering::SeqCst) > 1) {
            dup = Some(i);
            break;
        }
        if counts.iter().all(|c| c.load(Ordering::SeqCst) == 1) {
            break;
        }
        if last_progress.elapsed() > Duration::from_secs(3) {
            break;
        }
        if Instant::now() > deadline {
            // still making progress, just not done within the budget: no verdict
            out.end(case, Verdict::Inconclusive, "harness/workload-not-finished-within-budget", false, "", jobj! {"executed" => e, "submitted" => total}, "tasks were still being executed when the 90 s budget ran out");
            std::process::exit(0);
        }
        // heartbeat
        let pr = probe_runs.clone();
        probe_handles.push(EventLoops::submit_task(None, move |_| {
            pr.fetch_add(1, Ordering::SeqCst);
            None
        }, None, Some(i64::MIN)));
        probes_sent += 1;
        std::thread::sleep(Duration::from_millis(50));
    }
    std::thread::sleep(Duration::from_millis(100));
    let rejected = REJECTED.lock().unwrap().clone();
    let never: Vec<usize> = counts.iter().enumerate().filter(|(i, c)| c.load(Ordering::SeqCst) == 0 && !rejected.contains(i)).map(|(i, _)| i).collect();
    let twice: Vec<usize> = counts.iter().enumerate().filter(|(_, c)| c.load(Ordering::SeqCst) > 1).map(|(i, _)| i).collect();
    let nthreads = exec_threads.lock().unwrap().len();
    let probes_ran = probe_runs.load(Ordering::SeqCst);
    let overlap = submitters >= 2;
    let obs = jobj! {"submitted" => total, "executed_once" => total - never.len() - twice.len(), "never_executed" => never.len(), "submissions_refused_by_the_runtime" => rejected.len(), "executed_more_than_once" => twice.len(),
        "loop_threads_that_ran_tasks(sampled)" => nthreads, "heartbeat_probes_sent" => probes_sent, "heartbeat_probes_executed" => probes_ran, "burst_exceeds_local_capacity" => per > 256};
    let fp = format!("{loops}|{submitters}|{per}|{prio_mix}|{body:?}|{max_size}");
    let nontrivial = overlap && per > 256;
    let _ = dup;
    if !twice.is_empty() {
        out.end(case, Verdict::Violated, &format!("C01/task-executed-twice/{}", if submitters > 1 { "multi-submitter" } else { "single-submitter" }), true, &fp, obs, &format!("{} tasks ran more than once, e.g. uid {}", twice.len(), twice[0]));
    } else if !never.is_empty() {
        if std::env::var("VERIF_DEBUG_STALL").is_ok() {
            eprintln!("STALLED pid {}", std::process::id());
            std::thread::sleep(Duration::from_secs(120));
        }
        let alive = probes_sent > 0 && probes_ran * 2 >= probes_sent.saturating_sub(2);
        // are the event-loop threads themselves still going round (an idle loop wakes every 10 ms), or are they stuck?
        let activity = loop_thread_activity();
        let loop_threads = activity.len();
        let cycling = activity.iter().filter(|a| a.0 >= 5 && a.1 < 200).count();
        // a wedged loop thread spins: it never goes to sleep and burns (nearly) all of the 400 ms although no task is executing any more
        let wedged = activity.iter().filter(|a| a.0 == 0 && a.1 >= 300).count();
        let kind = if wedged > 0 && wedged == loop_threads {
            "runtime-stopped-scheduling-with-tasks-outstanding"
        } else if wedged > 0 {
            "loop-thread-wedged-with-a-task-in-hand"
        } else if alive {
            "task-stranded-while-runtime-keeps-scheduling"
        } else if loop_threads > 0 && cycling == loop_threads {
            "tasks-ignored-while-every-loop-thread-keeps-cycling"
        } else {
            "runtime-stopped-scheduling-with-tasks-outstanding"
        };
        // wedged loop threads are attributed by what makes parked coroutines migrate between loop threads: several loops sharing one ready
        // queue (idle workers park themselves too, so the task bodies need not suspend for a parked coroutine to be stolen)
        let ctx = if wedged > 0 && loops > 1 { "multi-loop" } else if wedged > 0 { "single-loop" } else if submitters > 1 { "multi-submitter" } else { "single-submitter" };
        out.end(case, Verdict::Violated, &format!("C01/{kind}/{ctx}"), true, &fp, obs,
            &format!("{} of {total} tasks never ran (e.g. uid {}), no new execution for 3 s; heartbeat probes executed {probes_ran}/{probes_sent}; {cycling} of {loop_threads} event-loop threads still wake up regularly, {wedged} spin without ever sleeping (per thread in 400 ms: voluntary switches / CPU ms {activity:?})", never.len(), never[0]));
    } else {
        out.end(case, Verdict::Held, "", nontrivial, &fp, obs, "");
    }
    std::mem::forget(probe_handles);
    std::mem::forget(ths);
}

// ====================================================================== C02
/// C02, joins issued from inside tasks: a parent task submits children and joins them from its own coroutine
/// (`wait_task_result` then runs queued tasks inline instead of blocking the thread).
fn c02_nested(seed: u64, case: u64, out: &Out) {
    let mut rng = Rng::for_case(seed ^ 0xC02B, case);
    let parents = *rng.pick(&[1usize, 2, 4, 8]);
    let kids = rng.usize(2, 12);
    let workers = *rng.pick(&[1usize, 2, 8, 64]);
    out.begin(case, jobj! {"mode" => "joins issued from inside tasks", "event_loops" => 1, "parent_tasks" => parents, "children_per_parent" => kids, "pool_max_size" => workers,
        "children" => "instant / busy 1 ms / delay 5 ms / panic with a formatted message; the parent joins each of them with a 5 s timeout from its own coroutine"});
    init(1, workers, 0, 0);
    // (uid, want, got, join deadline)
    let results: Arc<Mutex<Vec<(usize, String, String, u64)>>> = Arc::default();
    let finished_at: Arc<Mutex<std::collections::HashMap<usize, u64>>> = Arc::default();
    let done = Arc::new(AtomicUsize::new(0));
    let mut hs = vec![];
    for p in 0..parents {
        let (results, done, finished_at) = (results.clone(), done.clone(), finished_at.clone());
        let mut r = Rng::for_case(seed ^ 0xC02C, case * 64 + p as u64);
        hs.push(EventLoops::submit_task(None, move |_| {
            let mut handles = vec![];
            for k in 0..kids {
                let uid = p * 1000 + k;
                let kind = r.below(4);
                let fin = finished_at.clone();
                let h = EventLoops::submit_task(None, move |_| {
                    // the finish stamp is taken when the body is left, by a return or by a panic
                    struct Stamp(Arc<Mutex<std::collections::HashMap<usize, u64>>>, usize);
                    impl Drop for Stamp {
                        fn drop(&mut self) {
                            self.0.lock().unwrap().insert(self.1, mono_ns());
                        }
                    }
                    let _stamp = Stamp(fin, uid);
                    match kind {
                        1 => {
                            let t = Instant::now();
                            while t.elapsed() < Duration::from_millis(1) {
                                std::hint::spin_loop();
                            }
                        }
                        2 => {
                            if let Some(s) = SchedulableSuspender::current() {
                                s.delay(Duration::from_millis(5));
                            }
                        }
                        3 => panic!("formatted message of child {uid}"),
                        _ => {}
                    }
                    Some(uid + 1)
                }, None, None);
                handles.push((uid, kind, h));
                // some parents join right away, others first submit everything
                if r.chance(1, 2) {
                    let (uid, kind, h) = handles.pop().expect("just pushed");
                    let deadline = mono_ns() + 5_000_000_000;
                    let got = h.timeout_join(Duration::from_secs(5));
                    results.lock().unwrap().push((uid, want_of(uid, kind), got_str(&got), deadline));
                    std::mem::forget(h);
                }
            }
            for (uid, kind, h) in handles {
                let deadline = mono_ns() + 5_000_000_000;
                let got = h.timeout_join(Duration::from_secs(5));
                results.lock().unwrap().push((uid, want_of(uid, kind), got_str(&got), deadline));
                std::mem::forget(h);
            }
            done.fetch_add(1, Ordering::SeqCst);
            Some(p)
        }, None, None));
    }
    fn want_of(uid: usize, kind: u64) -> String {
        if kind == 3 { format!("Err(formatted message of child {uid})") } else { format!("Ok(Some({}))", uid + 1) }
    }
    fn got_str(got: &std::io::Result<Result<Option<usize>, &str>>) -> String {
        match got {
            Ok(Ok(v)) => format!("Ok({v:?})"),
            Ok(Err(m)) => format!("Err({m})"),
            Err(e) => format!("JoinError({:?})", e.kind()),
        }
    }
    let t0 = Instant::now();
    while done.load(Ordering::SeqCst) < parents && t0.elapsed() < Duration::from_secs(40) {
        std::thread::sleep(Duration::from_millis(5));
    }
    let finished_parents = done.load(Ordering::SeqCst);
    let rs = results.lock().unwrap().clone();
    let mut viol: Option<(String, String)> = None;
    let fin = finished_at.lock().unwrap().clone();
    let mut unfinished = 0usize;
    for (uid, want, got, deadline) in &rs {
        if got.starts_with("JoinError(TimedOut") && fin.get(uid).is_none_or(|t| *t + 200_000_000 > *deadline) {
            // the child had not finished (well) before the deadline: a timeout is the legal answer, whatever kept the child from finishing
            unfinished += 1;
            continue;
        }
        if want != got {
            let kind = if got.starts_with("JoinError(TimedOut") { "join-from-a-task-timed-out-although-the-task-had-finished" } else if got.starts_with("JoinError") { "join-from-a-task-failed" } else { "join-from-a-task-returned-another-outcome" };
            viol = viol.or(Some((kind.into(), format!("child {uid}: joined {got}, its own outcome is {want}"))));
        }
    }
    if viol.is_none() && finished_parents < parents {
        // (a join must come back at its 5 s deadline at the latest, finished child or not)
        viol = Some(("join-from-a-task-never-returned".into(), format!("{finished_parents} of {parents} parent tasks finished within 40 s ({} of {} joins returned)", rs.len(), parents * kids)));
    }
    let obs = jobj! {"joins" => rs.len(), "joins_expected" => parents * kids, "parents_finished" => finished_parents, "joins_that_timed_out_on_children_that_had_not_finished(not judged)" => unfinished, "wall_ms" => t0.elapsed().as_millis() as u64};
    let fp = format!("nested|{parents}|{kids}|{workers}");
    std::mem::forget(hs);
    if viol.as_ref().is_some_and(|v| v.0.contains("timed-out") || v.0.contains("never-returned")) && wl_core::overloaded() {
        out.end(case, Verdict::Inconclusive, "machine-overloaded-during-timing-case", false, &fp, obs, &viol.map(|v| v.1).unwrap_or_default());
        return;
    }
    match viol {
        Some((k, d)) => out.end(case, Verdict::Violated, &format!("C02/{k}"), true, &fp, obs, &d),
        None => out.end(case, Verdict::Held, "", rs.len() - unfinished >= 2, &fp, obs, ""),
    }
}

fn c02(seed: u64, case: u64, out: &Out) {
    if case % 5 == 4 {
        return c02_nested(seed, case, out);
    }
    let mut rng = Rng::for_case(seed ^ 0xC02, case);
    let loops = *rng.pick(&[1usize, 2, 4]);
    let joiners = *rng.pick(&[1usize, 2, 4, 16]);
    let forced = case % 3 == 0;
    let per = if forced { rng.usize(6, 16) } else if loops > 1 { rng.usize(10, 60) } else { rng.usize(20, 120) }; // force "completion lands between first check and registration" through the pause hook
    out.begin(case, jobj! {"event_loops" => loops, "joiner_threads" => joiners, "tasks_per_joiner" => per, "forced_schedule" => if forced {"waiter paused after its first result check until the task finished + 20 ms"} else {"none"}});
    init(loops, 256, 0, 0);
    static FINISHED: Mutex<Option<std::collections::HashMap<u64, u64>>> = Mutex::new(None);
    *FINISHED.lock().unwrap() = Some(std::collections::HashMap::new());
    static PAUSE_HITS: AtomicUsize = AtomicUsize::new(0);
    static FIN_UIDS: Mutex<Vec<usize>> = Mutex::new(Vec::new());
    if forced {
        fn pauser(point: &'static str, task_id: u64) {
            if point != "join:after_first_check" {
                return;
            }
            PAUSE_HITS.fetch_add(1, Ordering::SeqCst);
            // hold the waiter until the task has finished (result stored, notify found nobody), then 20 ms more
            let t0 = Instant::now();
            loop {
                let fin = FINISHED.lock().unwrap().as_ref().and_then(|m| m.get(&task_id).copied());
                if let Some(t) = fin {
                    let since = mono_ns().saturating_sub(t);
                    if since < 20_000_000 {
                        std::thread::sleep(Duration::from_nanos(20_000_000 - since));
                    }
                    return;
                }
                if t0.elapsed() > Duration::from_secs(2) {
                    return;
                }
                std::thread::sleep(Duration::from_millis(1));
            }
        }
        open_coroutine_core::verif::set_pauser(Some(pauser));
    }
    let results: Arc<Mutex<Vec<(usize, String, String, u64, bool)>>> = Arc::default(); // (uid, want, got, latency_ns after max(call, finish), issued_before_finish)
    let mut ths = vec![];
    for j in 0..joiners {
        let results = results.clone();
        let mut r = Rng::for_case(seed ^ 0xC02A, case * 64 + j as u64);
        ths.push(std::thread::spawn(move || {
            for k in 0..per {
                let uid = j * 10_000 + k;
                let mut kind = r.below(7); // 0 instant, 1 busy 1 ms, 2 delay 5 ms, 3 panic static, 4 panic formatted, 5 slow (80 ms) and joined twice, 6 instant and joined with a zero timeout after it has finished
                if loops > 1 && kind == 2 {
                    // with several loops a suspended worker coroutine can be stolen by another loop thread, which is a known
                    // memory-safety finding of its own (see C22/C01 in known_findings.json): keep it out of this property's verdict
                    kind = 1;
                }
                let name = format!("c02-{uid}-{}", r.next_u64());
                let name2 = name.clone();
                let h = EventLoops::submit_task(
                    Some(name),
                    move |_| {
                        match kind {
                            1 => {
                                let t = Instant::now();
                                while t.elapsed() < Duration::from_millis(1) {
                                    std::hint::spin_loop();
                                }
                            }
                            2 => {
                                if let Some(s) = SchedulableSuspender::current() {
                                    s.delay(Duration::from_millis(5));
                                }
                            }
                            5 => {
                                if loops > 1 {
                                    let t = Instant::now();
                                    while t.elapsed() < Duration::from_millis(80) {
                                        std::hint::spin_loop();
                                    }
                                } else if let Some(s) = SchedulableSuspender::current() {
                                    s.delay(Duration::from_millis(80));
                                }
                            }
                            _ => {}
                        }
                        // stamp "finished" as the last statement (a panic is the last statement too)
                        let id = {
                            use std::hash::{DefaultHasher, Hash, Hasher};
                            let mut h = DefaultHasher::new();
                            name2.hash(&mut h);
                            h.finish()
                        };
                        if let Some(m) = FINISHED.lock().unwrap().as_mut() {
                            m.insert(id, mono_ns());
                        }
                        FIN_UIDS.lock().unwrap().push(uid);
                        match kind {
                            3 => panic!("static message of a c02 task"),
                            4 => panic!("formatted message of task {uid}"),
                            _ => Some(uid + 1),
                        }
                    },
                    None,
                    None,
                );
                let id = h.id().unwrap_or(0);
                if r.chance(1, 3) {
                    std::thread::sleep(Duration::from_micros(r.below(3000)));
                }
                if kind == 5 {
                    // a first, short join gives up while the task is still running; the task then finishes with nobody waiting
                    let first = h.timeout_join(Duration::from_millis(10));
                    let fin_now = FINISHED.lock().unwrap().as_ref().and_then(|m| m.get(&id).copied());
                    if let Ok(v) = &first {
                        // (with the forced schedule the waiter is held until the task is done, so the first join may already succeed)
                        let gots = match v {
                            Ok(x) => format!("Ok({x:?})"),
                            Err(m) => format!("Err({m})"),
                        };
                        let want = if fin_now.is_some() { format!("Ok(Some({}))", uid + 1) } else { "JoinError(TimedOut) for an unfinished task".to_string() };
                        results.lock().unwrap().push((uid, want, gots, 0, true));
                        drop(h);
                        continue;
                    }
                    let t0 = Instant::now();
                    while FINISHED.lock().unwrap().as_ref().and_then(|m| m.get(&id).copied()).is_none() && t0.elapsed() < Duration::from_secs(3) {
                        std::thread::sleep(Duration::from_millis(2));
                    }
                    std::thread::sleep(Duration::from_millis(20));
                }
                if kind == 6 {
                    // a try-join: the deadline is "now", the task has finished a while ago and its result is waiting
                    let t0 = Instant::now();
                    while FINISHED.lock().unwrap().as_ref().and_then(|m| m.get(&id).copied()).is_none() && t0.elapsed() < Duration::from_secs(3) {
                        std::thread::sleep(Duration::from_millis(1));
                    }
                    std::thread::sleep(Duration::from_millis(20));
                }
                let t_call = mono_ns();
                let fin_before = FINISHED.lock().unwrap().as_ref().and_then(|m| m.get(&id).copied());
                let got = h.timeout_join(if kind == 6 { Duration::ZERO } else { Duration::from_secs(3) });
                let t_ret = mono_ns();
                let fin = FINISHED.lock().unwrap().as_ref().and_then(|m| m.get(&id).copied()).unwrap_or(t_ret);
                let want = match kind {
                    3 => "Err(static message of a c02 task)".to_string(),
                    4 => format!("Err(formatted message of task {uid})"),
                    _ => format!("Ok(Some({}))", uid + 1),
                };
                let gots = match &got {
                    Ok(Ok(v)) => format!("Ok({v:?})"),
                    Ok(Err(m)) => format!("Err({m})"),
                    Err(e) => format!("JoinError({:?})", e.kind()),
                };
                let lat = t_ret.saturating_sub(t_call.max(fin));
                results.lock().unwrap().push((uid, want, gots, lat, fin_before.is_none()));
                drop(h);
            }
        }));
    }
    let t0 = Instant::now();
    for t in ths {
        // joiners use 4 s timeouts, so they always come back
        let _ = t.join();
    }
    let rs = results.lock().unwrap().clone();
    let mut viol: Option<(String, String)> = None;
    let mut worst = 0u64;
    let mut early = 0usize;
    let mut unfinished = 0usize;
    let finished_ids: std::collections::HashSet<usize> = FIN_UIDS.lock().unwrap().iter().copied().collect();
    for (uid, want, got, lat, before) in &rs {
        worst = worst.max(*lat);
        if *before {
            early += 1;
        }
        if got.starts_with("JoinError(TimedOut") && *lat == 0 && !finished_ids.contains(uid) {
            // the task itself never finished (lost or still queued): a timeout is the legal answer here, C01 owns that
            unfinished += 1;
            continue;
        }
        if got != want {
            let kind = if got.starts_with("JoinError(TimedOut") { "join-timed-out-although-task-finished" } else if got.starts_with("JoinError") { "join-failed" } else { "join-returned-another-outcome" };
            let ctx = if loops > 1 { "multi-loop" } else { "single-loop" };
            viol = viol.or(Some((format!("{kind}/{ctx}{}", if forced && loops == 1 { "/completion-between-check-and-register" } else { "" }), format!("task {uid}: joined {got}, its own outcome is {want} (latency after finish {lat} ns)"))));
        } else if *lat > 1_000_000_000 {
            viol = viol.or(Some((format!("join-not-prompt{}", if forced { "/completion-between-check-and-register" } else { "" }), format!("task {uid}: join returned {} ms after the task had finished", lat / 1_000_000))));
        }
    }
    let hits = PAUSE_HITS.load(Ordering::SeqCst);
    let obs = jobj! {"joins" => rs.len(), "joins_issued_before_task_finished" => early, "worst_latency_after_finish_ms" => worst / 1_000_000, "pause_hook_hits" => hits, "joins_on_tasks_that_never_finished(not judged)" => unfinished, "wall_ms" => t0.elapsed().as_millis() as u64};
    let fp = format!("{loops}|{joiners}|{per}|{forced}");
    if viol.as_ref().is_some_and(|v| v.0.starts_with("join-not-prompt") || v.0.starts_with("join-timed-out")) && wl_core::overloaded() {
        out.end(case, Verdict::Inconclusive, "machine-overloaded-during-timing-case", false, &fp, obs, &viol.map(|v| v.1).unwrap_or_default());
        return;
    }
    match viol {
        Some((k, d)) => out.end(case, Verdict::Violated, &format!("C02/{k}"), true, &fp, obs, &d),
        None => out.end(case, Verdict::Held, "", early > 0 || hits > 0, &fp, obs, ""),
    }
}


// ====================================================================== C15
/// Records by how much a blocked call overran its timeout when the task leaves (also when it leaves by a cancel).
struct LateGuard(Arc<Mutex<Vec<(u64, u64)>>>, u64, u64);
impl Drop for LateGuard {
    fn drop(&mut self) {
        // (when the task entered its blocking call, by how much the call overran)
        self.0.lock().unwrap().push((self.1, (mono_ns() - self.1).saturating_sub(self.2 * 1_000_000)));
    }
}

fn c15(seed: u64, case: u64, out: &Out) {
    use open_coroutine_core::syscall as oc;
    let mut rng = Rng::for_case(seed ^ 0xC15, case);
    let scenario = case % 3; // 0: N sleepers, 1: N tasks parked in a hooked socket read with a timeout, 2: late arrival while a long sleeper is parked
    let mut n = *rng.pick(&[8usize, 16, 32]);
    let mut d_ms: u64 = *rng.pick(&[100u64, 200]);
    if scenario == 0 && case % 18 == 15 {
        // a burst that is larger than the loop's local queue (256): the overflow waits in the shared queue
        n = 600;
        d_ms = 500;
    }
    // which hooked call the N tasks block in (scenario 0: timed waits, scenario 1: socket calls that run into the socket's timeout)
    // (the burst case uses plain sleeps: a coroutine in a hooked poll/select comes back to the scheduler every few milliseconds)
    let kind = if n > 256 { "usleep/nanosleep" } else if scenario == 0 { ["usleep/nanosleep", "poll", "select", "mixed timed waits"][(case / 3 % 4) as usize] } else if scenario == 1 { ["recv on an empty socket", "send on a full socket", "accept on an idle listener"][(case / 3 % 3) as usize] } else { "usleep" };
    out.begin(case, jobj! {"blocking_call" => kind, "scenario" => ["N tasks in hooked usleep/nanosleep + one computing sibling", "N tasks parked in a hooked recv (SO_RCVTIMEO) + one computing sibling", "a task submitted while the only worker is parked in a long hooked sleep"][scenario as usize],
        "tasks" => n, "each_blocks_ms" => d_ms});
    init(1, n + 8, 0, 0);
    let done = Arc::new(AtomicUsize::new(0));
    let progress = Arc::new(AtomicU64::new(0));
    let stop_sibling = Arc::new(AtomicBool::new(false));
    let t0 = Instant::now();
    let mut viol: Option<(String, String)> = None;
    let mut obs = J::Null;
    let mut nontrivial = true;
    if scenario == 2 {
        let long_ms = 1500u64;
        let a_started = Arc::new(AtomicBool::new(false));
        let a2 = a_started.clone();
        let ha = EventLoops::submit_task(None, move |_| {
            a2.store(true, Ordering::SeqCst);
            let _ = oc::usleep(None, (long_ms * 1000) as u32);
            Some(1)
        }, None, None);
        while !a_started.load(Ordering::SeqCst) && t0.elapsed() < Duration::from_secs(5) {
            std::thread::sleep(Duration::from_millis(1));
        }
        std::thread::sleep(Duration::from_millis(rng.range(100, 300)));
        let tb = Instant::now();
        let hb = EventLoops::submit_task(None, move |_| {
            let _ = oc::usleep(None, 50_000);
            Some(2)
        }, None, None);
        let rb = hb.timeout_join(Duration::from_secs(5));
        let lat = tb.elapsed().as_millis() as u64;
        obs = jobj! {"late_task_latency_ms" => lat, "long_sleeper_ms" => long_ms};
        if !matches!(rb, Ok(Ok(Some(2)))) {
            viol = Some(("late-task-did-not-finish".into(), format!("{rb:?} after {lat} ms")));
        } else if lat > 650 + 20 * (wl_core::sched_noise_ns() / 1_000_000) {
            viol = Some(("late-task-waited-for-parked-sibling".into(), format!("a 50 ms task took {lat} ms while the only other worker was parked in a {long_ms} ms hooked sleep")));
        }
        std::mem::forget(ha);
    } else {
        // computing sibling: yields all the time, must keep making progress while the others are parked
        // the sibling is always runnable, so the loop thread has no reason to sit in a wait: every step that comes more than
        // 8 ms after the previous one is a stall of the loop thread (or of the machine, see the load monitor)
        let stalls: Arc<Mutex<Vec<(u64, u64)>>> = Arc::default();
        let lateness: Arc<Mutex<Vec<(u64, u64)>>> = Arc::default();
        let (p2, s2, st2) = (progress.clone(), stop_sibling.clone(), stalls.clone());
        let hs = EventLoops::submit_task(None, move |_| {
            let mut last = mono_ns();
            while !s2.load(Ordering::SeqCst) {
                if std::env::var_os("VERIF_NO_SIBLING").is_some() {
                    p2.fetch_add(1000, Ordering::SeqCst);
                    break;
                }
                p2.fetch_add(1, Ordering::SeqCst);
                if let Some(s) = SchedulableSuspender::current() {
                    s.suspend();
                }
                let t = mono_ns();
                if t - last > 8_000_000 {
                    st2.lock().unwrap().push((t, t - last));
                }
                last = t;
            }
            Some(0)
        }, None, None);
        let mut socks = vec![];
        let mut hs_all = vec![];
        // big burst: a gate task keeps the loop thread busy while the burst is queued, so that all of it is queued at once
        let gate = Arc::new(AtomicBool::new(n <= 256));
        if n > 256 {
            let (g, started) = (gate.clone(), Arc::new(AtomicBool::new(false)));
            let st = started.clone();
            hs_all.push(EventLoops::submit_task(None, move |_| {
                st.store(true, Ordering::SeqCst);
                let t = Instant::now();
                while !g.load(Ordering::SeqCst) && t.elapsed() < Duration::from_secs(5) {
                    std::hint::spin_loop();
                }
                Some(usize::MAX)
            }, None, Some(i64::MIN)));
            let t = Instant::now();
            while !started.load(Ordering::SeqCst) && t.elapsed() < Duration::from_secs(3) {
                std::thread::sleep(Duration::from_millis(1));
            }
        }
        let mut t_sub = Instant::now();
        for i in 0..n {
            let d2 = done.clone();
            if scenario == 0 {
                let which = match kind {
                    "usleep/nanosleep" => i % 2,
                    "poll" => 2,
                    "select" => 3,
                    _ => i % 4,
                };
                let late = lateness.clone();
                hs_all.push(EventLoops::submit_task(None, move |_| {
                    let t_in = mono_ns();
                    let _late_guard = LateGuard(late, t_in, d_ms);
                    match which {
                        0 => {
                            let _ = oc::usleep(None, (d_ms * 1000) as u32);
                        }
                        1 => {
                            let rq = libc::timespec { tv_sec: (d_ms / 1000) as libc::time_t, tv_nsec: ((d_ms % 1000) * 1_000_000) as libc::c_long };
                            let _ = oc::nanosleep(None, &raw const rq, std::ptr::null_mut());
                        }
                        2 => {
                            let _ = oc::poll(None, std::ptr::null_mut(), 0, d_ms as libc::c_int);
                        }
                        _ => {
                            let mut t = libc::timeval { tv_sec: (d_ms / 1000) as libc::time_t, tv_usec: ((d_ms % 1000) * 1000) as libc::suseconds_t };
                            let _ = oc::select(None, 0, std::ptr::null_mut(), std::ptr::null_mut(), std::ptr::null_mut(), &raw mut t);
                        }
                    }
                    d2.fetch_add(1, Ordering::SeqCst);
                    Some(i)
                }, None, None));
            } else {
                let tv = libc::timeval { tv_sec: (d_ms / 1000) as libc::time_t, tv_usec: ((d_ms % 1000) * 1000) as libc::suseconds_t };
                let tvlen = size_of::<libc::timeval>() as libc::socklen_t;
                if kind == "accept on an idle listener" {
                    // a listening unix socket nobody connects to
                    let l = unsafe { libc::socket(libc::AF_UNIX, libc::SOCK_STREAM, 0) };
                    let path = format!("/tmp/verif-c15-{}-{case}-{i}.sock", std::process::id());
                    let _ = std::fs::remove_file(&path);
                    let mut addr: libc::sockaddr_un = unsafe { std::mem::zeroed() };
                    addr.sun_family = libc::AF_UNIX as libc::sa_family_t;
                    for (k, b) in path.bytes().enumerate() {
                        addr.sun_path[k] = b as libc::c_char;
                    }
                    assert_eq!(0, unsafe { libc::bind(l, (&raw const addr).cast(), size_of::<libc::sockaddr_un>() as libc::socklen_t) });
                    assert_eq!(0, unsafe { libc::listen(l, 4) });
                    let _ = std::fs::remove_file(&path);
                    socks.push([l, -1]);
                    let late = lateness.clone();
                    hs_all.push(EventLoops::submit_task(None, move |_| {
                        let _late_guard = LateGuard(late, mono_ns(), d_ms);
                        let _ = oc::setsockopt(None, l, libc::SOL_SOCKET, libc::SO_RCVTIMEO, std::ptr::from_ref(&tv).cast(), tvlen);
                        let _ = oc::accept(None, l, std::ptr::null_mut(), std::ptr::null_mut());
                        d2.fetch_add(1, Ordering::SeqCst);
                        Some(i)
                    }, None, None));
                    continue;
                }
                let mut sv = [0; 2];
                assert_eq!(0, unsafe { libc::socketpair(libc::AF_UNIX, libc::SOCK_STREAM, 0, sv.as_mut_ptr()) });
                socks.push(sv);
                let fd = sv[0];
                let sending = kind == "send on a full socket";
                if sending {
                    // fill the send buffer beforehand so that the hooked send has to wait for room that never comes
                    unsafe {
                        let fl = libc::fcntl(fd, libc::F_GETFL);
                        libc::fcntl(fd, libc::F_SETFL, fl | libc::O_NONBLOCK);
                        let junk = [3u8; 65536];
                        while libc::write(fd, junk.as_ptr().cast(), junk.len()) > 0 {}
                        libc::fcntl(fd, libc::F_SETFL, fl);
                    }
                }
                let late = lateness.clone();
                hs_all.push(EventLoops::submit_task(None, move |_| {
                    let _late_guard = LateGuard(late, mono_ns(), d_ms);
                    if sending {
                        let _ = oc::setsockopt(None, fd, libc::SOL_SOCKET, libc::SO_SNDTIMEO, std::ptr::from_ref(&tv).cast(), tvlen);
                        let b = [5u8; 4096];
                        let _ = oc::send(None, fd, b.as_ptr().cast(), b.len(), 0);
                    } else {
                        let _ = oc::setsockopt(None, fd, libc::SOL_SOCKET, libc::SO_RCVTIMEO, std::ptr::from_ref(&tv).cast(), tvlen);
                        let mut b = [0u8; 8];
                        let _ = oc::recv(None, fd, b.as_mut_ptr().cast(), 8, 0);
                    }
                    d2.fetch_add(1, Ordering::SeqCst);
                    Some(i)
                }, None, None));
            }
        }
        if n > 256 {
            t_sub = Instant::now();
            gate.store(true, Ordering::SeqCst);
        }
        let p_before = progress.load(Ordering::SeqCst);
        let limit = Duration::from_millis((n as u64 * d_ms).max(2000) + 5000);
        while done.load(Ordering::SeqCst) < n && t_sub.elapsed() < limit {
            std::thread::sleep(Duration::from_millis(1));
        }
        let total_ms = t_sub.elapsed().as_millis() as u64;
        let p_during = progress.load(Ordering::SeqCst) - p_before;
        stop_sibling.store(true, Ordering::SeqCst);
        let noise_ms = wl_core::sched_noise_ns() / 1_000_000;
        let bound = (2 * d_ms).max(d_ms + 300 + 20 * noise_ms);
        obs = jobj! {"native_1ms_sleep_overshoot_ms" => noise_ms, "all_done_after_ms" => total_ms, "bound_ms" => bound, "serial_execution_would_need_ms" => n as u64 * d_ms, "sibling_progress_steps_meanwhile" => p_during, "finished" => done.load(Ordering::SeqCst)};
        nontrivial = n as u64 * d_ms > 2 * bound;
        if done.load(Ordering::SeqCst) < n {
            viol = Some(("blocked-tasks-never-finished".into(), format!("{} of {n} finished within {} ms", done.load(Ordering::SeqCst), limit.as_millis())));
        } else if total_ms > bound.max(n as u64 * d_ms / 2) {
            viol = Some(("blocked-coroutines-ran-one-after-another".into(), format!("{n} tasks blocking {d_ms} ms each finished after {total_ms} ms (bound {bound} ms, serial {} ms)", n as u64 * d_ms)));
        } else if p_during < 5 {
            viol = Some(("sibling-starved-while-others-blocked".into(), format!("the computing sibling made {p_during} steps in {total_ms} ms")));
        }
        // (a) how late did the blocked calls come back, (b) how often did the loop thread stall although the sibling was runnable
        let entered: Vec<u64> = lateness.lock().unwrap().iter().map(|x| x.0).collect();
        let start_spread_ms = entered.iter().max().copied().unwrap_or(0).saturating_sub(entered.iter().min().copied().unwrap_or(0)) / 1_000_000;
        let mut lat: Vec<u64> = lateness.lock().unwrap().iter().map(|x| x.1).collect();
        lat.sort_unstable();
        let median_late_ms = lat.get(lat.len() / 2).copied().unwrap_or(0) / 1_000_000;
        let t_sub_ns = mono_ns() - t_sub.elapsed().as_nanos() as u64;
        let st: Vec<(u64, u64)> = stalls.lock().unwrap().iter().filter(|(t, _)| *t >= t_sub_ns).copied().collect();
        let stalled_ms: u64 = st.iter().map(|s| s.1).sum::<u64>() / 1_000_000;
        let (_, _, bad_samples) = wl_core::load_window(total_ms * 1_000_000 + 1_000_000_000);
        if let J::O(ref mut o) = obs {
            o.push(("median_lateness_of_blocked_calls_ms".into(), J::U(median_late_ms)));
            o.push(("first_to_last_task_entering_its_call_ms".into(), J::U(start_spread_ms)));
            o.push(("loop_stalls_over_8ms_while_sibling_runnable".into(), J::U(st.len() as u64)));
            o.push(("loop_stalled_ms_in_total".into(), J::U(stalled_ms)));
            o.push(("load_monitor_bad_samples".into(), J::U(bad_samples as u64)));
        }
        if viol.is_none() && bad_samples == 0 {
            // healthy: a blocked call comes back within one pass of the loop, and the loop never sits still while the sibling can run;
            // serialised wake-ups (each returning call holding the loop thread) show as lateness and stall time that grow with N
            if start_spread_ms > d_ms / 2 + 20 * noise_ms {
                // every task is runnable from the start and the pool may grow up to N workers: a task that only enters its call after
                // half the blocking time of the others has waited for somebody else's blocked worker
                viol = Some(("queued-tasks-waited-for-blocked-workers".into(), format!("{n} tasks blocking {d_ms} ms each: the last one entered its call {start_spread_ms} ms after the first one (all were submitted before, the pool may have {} workers)", n + 8)));
            } else if median_late_ms > 40 + 20 * noise_ms {
                viol = Some(("blocked-calls-come-back-late-in-proportion-to-their-number".into(), format!("{n} tasks blocked for {d_ms} ms each: the median call returned {median_late_ms} ms late; the loop thread stalled {} times (> 8 ms, {stalled_ms} ms in total) although a sibling was runnable", st.len())));
            } else if st.len() >= n / 2 && stalled_ms > 5 * n as u64 + 20 * noise_ms {
                viol = Some(("loop-thread-stalled-while-a-sibling-was-runnable".into(), format!("{n} tasks blocked for {d_ms} ms each: the loop thread stalled {} times for more than 8 ms ({stalled_ms} ms in total) between two steps of an always-runnable sibling", st.len())));
            }
        }
        std::mem::forget(hs);
        std::mem::forget(hs_all);
        for sv in socks {
            if sv[1] >= 0 {
                unsafe {
                    libc::close(sv[1]);
                }
            }
        }
    }
    let fp = format!("{scenario}|{kind}|{n}|{d_ms}");
    if viol.is_some() && wl_core::overloaded() {
        out.end(case, Verdict::Inconclusive, "machine-overloaded-during-timing-case", false, &fp, obs, &viol.map(|v| v.1).unwrap_or_default());
        return;
    }
    match viol {
        Some((k, d)) => out.end(case, Verdict::Violated, &format!("C15/{k}"), true, &fp, obs, &d),
        None => out.end(case, Verdict::Held, "", nontrivial, &fp, obs, ""),
    }
}

// ====================================================================== C20
static RESUME_EVENTS: Mutex<Vec<(u64, u64, u64)>> = Mutex::new(Vec::new()); // (token, was_registered, mono_ns)

/// Interest histories (C20): the same descriptor is waited on for reading and writing, loses one interest or all of them,
/// is handed to another coroutine, ... and each wait that is made ready must still be woken by the readiness event itself.
#[derive(Clone, Copy, Debug, PartialEq, Eq)]
enum H {
    R,    // wait for read readiness, made ready 100+ ms later
    W,    // wait for write readiness on a full buffer, drained 100+ ms later
    Rt,   // wait for read readiness, 120 ms timeout, nothing arrives
    Wt,   // wait for write readiness on a full buffer, 120 ms timeout, nobody drains
    DelR, // EventLoops::del_read_event (what shutdown(SHUT_RD) does)
    DelW, // EventLoops::del_write_event (what shutdown(SHUT_WR) does)
    Del,  // EventLoops::del_event (what close does)
}

fn c20_hist(seed: u64, case: u64, out: &Out) {
    use open_coroutine_core::common::constants::{SyscallName, SyscallState};
    use open_coroutine_core::scheduler::SchedulableCoroutine;
    let mut rng = Rng::for_case(seed ^ 0xC20A, case);
    // every other history case adds one socket whose two directions are waited on by two coroutines at the same time
    let duplex = case % 8 == 5;
    let nsock = rng.usize(1, 4);
    // per socket: 1-3 segments, each run by a fresh coroutine (hand-over of the descriptor), 2-4 steps each
    let plans: Vec<Vec<Vec<H>>> = (0..nsock)
        .map(|_| {
            (0..rng.usize(1, 3))
                .map(|_| (0..rng.usize(2, 4)).map(|_| *rng.pick(&[H::R, H::R, H::W, H::W, H::Rt, H::Wt, H::DelR, H::DelW, H::Del])).collect())
                .collect()
        })
        .collect();
    out.begin(case, jobj! {"mode" => "interest histories", "sockets" => nsock,
        "duplex_socket" => if duplex {"one more socket: coroutine A waits for read readiness and coroutine B for write readiness of the same descriptor at the same time; read side made ready first, write side 300 ms later"} else {"none"},
        "histories" => plans.iter().map(|p| p.iter().map(|seg| format!("{seg:?}")).collect::<Vec<_>>().join(" -> hand over to a new coroutine -> ")).collect::<Vec<_>>(),
        "legend" => "R/W: wait made ready 100+ ms later (3 s timeout); Rt/Wt: wait that runs into its 120 ms timeout; DelR/DelW/Del: interest removed through EventLoops::del_*_event"});
    init(1, 64, 0, 0);
    fn observer(kind: &'static str, a: u64, b: u64, _: &str) {
        if kind == "resume" {
            RESUME_EVENTS.lock().unwrap().push((a, b, mono_ns()));
        }
    }
    open_coroutine_core::verif::set_observer(Some(observer));
    let mut socks = vec![];
    for _ in 0..nsock {
        let mut sv = [0; 2];
        assert_eq!(0, unsafe { libc::socketpair(libc::AF_UNIX, libc::SOCK_STREAM, 0, sv.as_mut_ptr()) });
        for fd in sv {
            unsafe {
                let fl = libc::fcntl(fd, libc::F_GETFL);
                libc::fcntl(fd, libc::F_SETFL, fl | libc::O_NONBLOCK);
            }
        }
        socks.push(sv);
    }
    // (sock, seg, step, kind, co_id, wait_start, wait_return)
    type Rec = (usize, usize, usize, H, u64, u64, u64);
    let log: Arc<Mutex<Vec<Rec>>> = Arc::default();
    let waiting_now: Arc<Mutex<std::collections::HashMap<usize, (usize, usize, H, u64)>>> = Arc::default();
    let mut ready_at: std::collections::HashMap<(usize, usize, usize), u64> = std::collections::HashMap::new();
    let seg_done: Arc<Vec<AtomicUsize>> = Arc::new((0..nsock).map(|_| AtomicUsize::new(0)).collect());
    let api_errors: Arc<Mutex<Vec<String>>> = Arc::default();
    let mut submitted = vec![0usize; nsock];
    let mut hs = vec![];
    // duplex socket: (co_id, wait_start, wait_return) of the reader and of the writer
    let dup_log: Arc<Mutex<[Option<(u64, u64, u64)>; 2]>> = Arc::default();
    let mut dup_sv = [0; 2];
    if duplex {
        assert_eq!(0, unsafe { libc::socketpair(libc::AF_UNIX, libc::SOCK_STREAM, 0, dup_sv.as_mut_ptr()) });
        for fd in dup_sv {
            unsafe {
                let fl = libc::fcntl(fd, libc::F_GETFL);
                libc::fcntl(fd, libc::F_SETFL, fl | libc::O_NONBLOCK);
            }
        }
        let fd = dup_sv[0];
        let junk = [3u8; 65536];
        while unsafe { libc::write(fd, junk.as_ptr().cast(), junk.len()) } > 0 {}
        for dir in 0..2usize {
            let dup_log = dup_log.clone();
            hs.push(EventLoops::submit_task(None, move |_| {
                let co = SchedulableCoroutine::current().expect("in coroutine");
                let id = co.id();
                let read = dir == 0;
                co.syscall((), if read { SyscallName::recv } else { SyscallName::send }, SyscallState::Executing).expect("enter syscall state");
                let t_start = mono_ns();
                let mut waits = 0;
                let t_ret = loop {
                    let _ = if read { EventLoops::wait_read_event(fd, Some(Duration::from_secs(3))) } else { EventLoops::wait_write_event(fd, Some(Duration::from_secs(3))) };
                    let t = mono_ns();
                    waits += 1;
                    let mut pfd = libc::pollfd { fd, events: if read { libc::POLLIN } else { libc::POLLOUT }, revents: 0 };
                    if unsafe { libc::poll(&raw mut pfd, 1, 0) } == 1 || waits >= 4 || t - t_start > 8_000_000_000 {
                        break t;
                    }
                };
                let co = SchedulableCoroutine::current().expect("in coroutine");
                let _ = co.running();
                dup_log.lock().unwrap()[dir] = Some((id, t_start, t_ret));
                Some(dir)
            }, None, None));
        }
    }
    let mut dup_ready = [0u64; 2];
    let t_all = Instant::now();
    let total_steps: usize = plans.iter().map(|p| p.iter().map(Vec::len).sum::<usize>()).sum();
    loop {
        // hand-over: the next segment of a socket starts when the previous one has finished
        for s in 0..nsock {
            let done = seg_done[s].load(Ordering::SeqCst);
            if submitted[s] == done && done < plans[s].len() {
                let g = done;
                submitted[s] += 1;
                let steps = plans[s][g].clone();
                let fd = socks[s][0];
                let (log, waiting_now, seg_done, api_errors) = (log.clone(), waiting_now.clone(), seg_done.clone(), api_errors.clone());
                hs.push(EventLoops::submit_task(None, move |_| {
                    let co = SchedulableCoroutine::current().expect("in coroutine");
                    let id = co.id();
                    for (k, h) in steps.iter().enumerate() {
                        match *h {
                            H::R | H::Rt | H::W | H::Wt => {
                                let read = matches!(*h, H::R | H::Rt);
                                if read {
                                    // like a hooked recv: only wait once the socket has nothing to read
                                    let mut b = [0u8; 256];
                                    while unsafe { libc::read(fd, b.as_mut_ptr().cast(), 256) } > 0 {}
                                } else {
                                    // like a hooked send: only wait once the send buffer is full
                                    let junk = [3u8; 65536];
                                    while unsafe { libc::write(fd, junk.as_ptr().cast(), junk.len()) } > 0 {}
                                }
                                let name = if read { SyscallName::recv } else { SyscallName::send };
                                co.syscall((), name, SyscallState::Executing).expect("enter syscall state");
                                let limit = if matches!(*h, H::R | H::W) { Duration::from_secs(3) } else { Duration::from_millis(120) };
                                let t_start = mono_ns();
                                waiting_now.lock().unwrap().insert(fd as usize, (g, k, *h, t_start));
                                let mut waits = 0;
                                let t_ret = loop {
                                    let _ = if read { EventLoops::wait_read_event(fd, Some(limit)) } else { EventLoops::wait_write_event(fd, Some(limit)) };
                                    let t = mono_ns();
                                    waits += 1;
                                    // like a hooked call: a wake-up that was caused by the other direction of the same socket is followed by another wait
                                    let mut pfd = libc::pollfd { fd, events: if read { libc::POLLIN } else { libc::POLLOUT }, revents: 0 };
                                    let ready = unsafe { libc::poll(&raw mut pfd, 1, 0) } == 1;
                                    if ready || !matches!(*h, H::R | H::W) || waits >= 4 || t - t_start > 8_000_000_000 {
                                        break t;
                                    }
                                };
                                waiting_now.lock().unwrap().remove(&(fd as usize));
                                let co = SchedulableCoroutine::current().expect("in coroutine");
                                let _ = co.running();
                                log.lock().unwrap().push((s, g, k, *h, id, t_start, t_ret));
                                if *h == H::W {
                                    // the drain raises several writable edges: let the tail pass before the next step
                                    let _ = EventLoops::wait_event(Some(Duration::from_millis(40)));
                                }
                            }
                            H::DelR | H::DelW | H::Del => {
                                let r = match *h {
                                    H::DelR => EventLoops::del_read_event(fd),
                                    H::DelW => EventLoops::del_write_event(fd),
                                    _ => EventLoops::del_event(fd),
                                };
                                if let Err(e) = r {
                                    api_errors.lock().unwrap().push(format!("socket {s} segment {g} step {k} {h:?}: {e}"));
                                }
                                log.lock().unwrap().push((s, g, k, *h, id, 0, 0));
                            }
                        }
                    }
                    seg_done[s].fetch_add(1, Ordering::SeqCst);
                    Some(s)
                }, None, None));
            }
        }
        // make the descriptors of R / W waits ready 100+ ms after the wait began
        let snapshot: Vec<(usize, (usize, usize, H, u64))> = waiting_now.lock().unwrap().iter().map(|(k, v)| (*k, *v)).collect();
        for (fd, (g, k, h, t_start)) in snapshot {
            let Some(s) = socks.iter().position(|sv| sv[0] as usize == fd) else { continue };
            if !matches!(h, H::R | H::W) || ready_at.contains_key(&(s, g, k)) || mono_ns().saturating_sub(t_start) < 100_000_000 {
                continue;
            }
            ready_at.insert((s, g, k), mono_ns());
            unsafe {
                if h == H::W {
                    let mut sink = vec![0u8; 1 << 20];
                    while libc::read(socks[s][1], sink.as_mut_ptr().cast(), sink.len()) > 0 {}
                } else {
                    let m = [1u8; 4];
                    libc::write(socks[s][1], m.as_ptr().cast(), 4);
                }
            }
        }
        if duplex {
            let el = t_all.elapsed();
            if dup_ready[0] == 0 && el > Duration::from_millis(250) {
                dup_ready[0] = mono_ns();
                let m = [1u8; 4];
                unsafe { libc::write(dup_sv[1], m.as_ptr().cast(), 4) };
            }
            if dup_ready[1] == 0 && el > Duration::from_millis(550) {
                dup_ready[1] = mono_ns();
                let mut sink = vec![0u8; 1 << 20];
                while unsafe { libc::read(dup_sv[1], sink.as_mut_ptr().cast(), sink.len()) } > 0 {}
            }
        }
        let dup_done = !duplex || dup_log.lock().unwrap().iter().all(Option::is_some);
        if ((0..nsock).all(|s| seg_done[s].load(Ordering::SeqCst) >= plans[s].len()) && dup_done) || t_all.elapsed() > Duration::from_secs(40) {
            break;
        }
        std::thread::sleep(Duration::from_millis(5));
    }
    let l = log.lock().unwrap().clone();
    let evs = RESUME_EVENTS.lock().unwrap().clone();
    let mut viol: Option<(String, String)> = None;
    let (mut worst, mut woken_by_event, mut judged) = (0u64, 0usize, 0usize);
    for (s, g, k, h, id, _t_start, t_ret) in &l {
        if !matches!(h, H::R | H::W) {
            continue;
        }
        judged += 1;
        // what happened to this descriptor's interests before this wait, in the words of a signature
        let before: Vec<H> = plans[*s].iter().enumerate().flat_map(|(gi, seg)| seg.iter().enumerate().filter(move |(ki, _)| gi < *g || (gi == *g && ki < k)).map(|(_, h)| *h).collect::<Vec<_>>()).collect();
        let handed = *g > 0;
        let dropped_one = before.iter().any(|b| matches!(b, H::DelR | H::DelW));
        let ctx = format!("{}{}{}", if *h == H::R { "read-wait" } else { "write-wait" }, if dropped_one { "-after-one-interest-was-removed" } else { "" }, if handed { "-descriptor-handed-to-another-coroutine" } else { "" });
        let Some(t_ready) = ready_at.get(&(*s, *g, *k)) else {
            viol = viol.or(Some((format!("waiter-returned-before-readiness/{ctx}"), format!("socket {s} history {:?}: step {k} of segment {g} returned although its descriptor had not been made ready", plans[*s]))));
            continue;
        };
        if t_ret < t_ready {
            viol = viol.or(Some((format!("waiter-returned-before-readiness/{ctx}"), format!("socket {s} history {:?}: step {k} of segment {g}", plans[*s]))));
            continue;
        }
        let lat = t_ret - t_ready;
        worst = worst.max(lat);
        let hit = evs.iter().any(|(tok, reg, t)| tok == id && *reg == 1 && *t >= *t_ready && *t <= *t_ret + 1_000_000);
        if hit {
            woken_by_event += 1;
        }
        if lat > 1_000_000_000 {
            viol = viol.or(Some((format!("readiness-did-not-wake-the-waiter/{ctx}"), format!("socket {s} history {:?}: the {h:?} wait at step {k} of segment {g} (coroutine id {id:#x}) returned {} ms after its descriptor became ready (its own 3000 ms timeout); tokens the loop tried to resume in that window: {:x?}", plans[*s], lat / 1_000_000,
                evs.iter().filter(|(_, _, t)| *t >= *t_ready && *t <= *t_ret).map(|e| e.0).take(6).collect::<Vec<_>>()))));
        } else if !hit {
            viol = viol.or(Some((format!("woken-without-a-readiness-event-for-its-token/{ctx}"), format!("socket {s} history {:?}: the {h:?} wait at step {k} of segment {g} (coroutine id {id:#x}) returned {} us after readiness but the loop's resume-by-token path never saw its token as registered", plans[*s], lat / 1000))));
        }
    }
    let mut dup_obs = vec![];
    if duplex {
        let dl = *dup_log.lock().unwrap();
        for dir in 0..2 {
            let what = if dir == 0 { "reader" } else { "writer" };
            let ctx = "two-coroutines-wait-on-the-two-directions-of-one-descriptor";
            match dl[dir] {
                None => viol = viol.or(Some((format!("waiter-never-returned/{ctx}"), format!("the {what} of the duplex socket did not return within 40 s")))),
                Some((id, _t_start, t_ret)) => {
                    let t_ready = dup_ready[dir];
                    if t_ready == 0 || t_ret < t_ready {
                        viol = viol.or(Some((format!("waiter-returned-before-readiness/{ctx}"), format!("the {what} of the duplex socket"))));
                        continue;
                    }
                    let lat = t_ret - t_ready;
                    let hit = evs.iter().any(|(tok, reg, t)| *tok == id && *reg == 1 && *t >= t_ready && *t <= t_ret + 1_000_000);
                    dup_obs.push(format!("{what}: woken {} ms after readiness, matching readiness event: {hit}", lat / 1_000_000));
                    if lat > 1_000_000_000 {
                        viol = viol.or(Some((format!("readiness-did-not-wake-the-waiter/{ctx}"), format!("the {what} (coroutine id {id:#x}) returned {} ms after its direction became ready (its own 3000 ms timeout) while another coroutine waits on the other direction of the same descriptor; tokens the loop tried to resume in that window: {:x?}", lat / 1_000_000,
                            evs.iter().filter(|(_, _, t)| *t >= t_ready && *t <= t_ret).map(|e| e.0).take(6).collect::<Vec<_>>()))));
                    } else if !hit {
                        viol = viol.or(Some((format!("woken-without-a-readiness-event-for-its-token/{ctx}"), format!("the {what} (coroutine id {id:#x}) returned {} us after readiness without a readiness event for its token", lat / 1000))));
                    }
                }
            }
        }
    }
    if viol.is_none() && l.len() < total_steps {
        viol = Some(("waiter-never-returned/interest-history".into(), format!("{} of {total_steps} steps completed within 40 s", l.len())));
    }
    let errs = api_errors.lock().unwrap().clone();
    let obs = jobj! {"steps_completed" => l.len(), "ready_waits_judged" => judged, "waits_woken_by_a_matching_readiness_event" => woken_by_event, "worst_wake_latency_ms" => worst / 1_000_000,
        "resume_events_observed" => evs.len(), "resume_events_with_unknown_token" => evs.iter().filter(|e| e.1 == 0).count(), "interest_removal_errors" => errs, "duplex_socket" => dup_obs};
    let fp = format!("hist|{duplex}|{:?}", plans);
    std::mem::forget(hs);
    if viol.as_ref().is_some_and(|v| v.0.starts_with("readiness-did-not-wake") || v.0.starts_with("waiter-never-returned")) && wl_core::overloaded() {
        out.end(case, Verdict::Inconclusive, "machine-overloaded-during-timing-case", false, &fp, obs, &viol.map(|v| v.1).unwrap_or_default());
        return;
    }
    match viol {
        Some((k, d)) => out.end(case, Verdict::Violated, &format!("C20/{k}"), true, &fp, obs, &d),
        None => out.end(case, Verdict::Held, "", woken_by_event > 0, &fp, obs, ""),
    }
}

fn c20(seed: u64, case: u64, out: &Out) {
    if case % 4 == 1 {
        return c20_hist(seed, case, out);
    }
    use open_coroutine_core::common::constants::{SyscallName, SyscallState};
    use open_coroutine_core::scheduler::SchedulableCoroutine;
    let mut rng = Rng::for_case(seed ^ 0xC20, case);
    let waiters = *rng.pick(&[1usize, 2, 4, 8, 16]);
    let write_interest = case % 4 == 3;
    // draining a full socket buffer produces several "writable" edges, so a second round would be woken by the tail of the first drain
    let rounds = if write_interest { 1 } else { rng.usize(1, 3) };
    let never_ready = if waiters > 1 { rng.usize(0, 1) } else { 0 }; // this many waiters are never made ready: they must time out, not return early
    out.begin(case, jobj! {"waiters" => waiters, "rounds_per_waiter" => rounds, "interest" => if write_interest {"write"} else {"read"}, "waiters_never_made_ready" => never_ready, "wait_timeout_ms" => 3000});
    init(1, 64, 0, 0);
    fn observer(kind: &'static str, a: u64, b: u64, _: &str) {
        if kind == "resume" {
            RESUME_EVENTS.lock().unwrap().push((a, b, mono_ns()));
        }
    }
    open_coroutine_core::verif::set_observer(Some(observer));
    // per waiter: a socketpair; the task waits on sv[0]
    let mut socks = vec![];
    for _ in 0..waiters {
        let mut sv = [0; 2];
        assert_eq!(0, unsafe { libc::socketpair(libc::AF_UNIX, libc::SOCK_STREAM, 0, sv.as_mut_ptr()) });
        unsafe {
            let fl = libc::fcntl(sv[0], libc::F_GETFL);
            libc::fcntl(sv[0], libc::F_SETFL, fl | libc::O_NONBLOCK);
        }
        socks.push(sv);
    }
    // (waiter, round) -> (co_id, wait_start, wait_return, result_ok)
    let log: Arc<Mutex<Vec<(usize, usize, u64, u64, u64, bool)>>> = Arc::default();
    let ready_at: Arc<Mutex<std::collections::HashMap<(usize, usize), u64>>> = Arc::default();
    let waiting_now: Arc<Mutex<std::collections::HashMap<usize, (usize, u64)>>> = Arc::default();
    let mut hs = vec![];
    for w in 0..waiters {
        let fd = socks[w][0];
        let (log, waiting_now) = (log.clone(), waiting_now.clone());
        let lazy = w < never_ready;
        hs.push(EventLoops::submit_task(None, move |_| {
            let co = SchedulableCoroutine::current().expect("in coroutine");
            let id = co.id();
            let n = if lazy { 1 } else { rounds };
            for r in 0..n {
                if write_interest {
                    // fill the send buffer so that "writable" is a real event later
                    let junk = [3u8; 65536];
                    while unsafe { libc::write(fd, junk.as_ptr().cast(), junk.len()) } > 0 {}
                }
                // what a hooked call does around its readiness waits: it enters the call once and may wait several times inside it
                if r == 0 {
                    co.syscall((), SyscallName::recv, SyscallState::Executing).expect("enter syscall state");
                }
                let t_start = mono_ns();
                waiting_now.lock().unwrap().insert(w, (r, t_start));
                let res = if write_interest { EventLoops::wait_write_event(fd, Some(Duration::from_secs(3))) } else { EventLoops::wait_read_event(fd, Some(Duration::from_secs(3))) };
                let t_ret = mono_ns();
                waiting_now.lock().unwrap().remove(&w);
                if r + 1 == n {
                    let co = SchedulableCoroutine::current().expect("in coroutine");
                    let _ = co.running();
                }
                if !write_interest {
                    let mut b = [0u8; 64];
                    unsafe { libc::read(fd, b.as_mut_ptr().cast(), 64) };
                }
                log.lock().unwrap().push((w, r, id, t_start, t_ret, res.is_ok()));
            }
            Some(w)
        }, None, None));
    }
    // the driver makes descriptors ready in random order, 100-200 ms after the waiter started waiting on that round
    let mut order: Vec<usize> = (never_ready..waiters).collect();
    let t_all = Instant::now();
    let mut finished_rounds = vec![0usize; waiters];
    while t_all.elapsed() < Duration::from_secs(20) {
        let snapshot: Vec<(usize, (usize, u64))> = waiting_now.lock().unwrap().iter().map(|(k, v)| (*k, *v)).collect();
        // shuffle
        for i in (1..order.len()).rev() {
            order.swap(i, rng.usize(0, i));
        }
        for w in &order {
            if let Some((_, (r, t_start))) = snapshot.iter().find(|(k, _)| k == w) {
                if ready_at.lock().unwrap().contains_key(&(*w, *r)) {
                    continue;
                }
                if mono_ns().saturating_sub(*t_start) < 100_000_000 {
                    continue;
                }
                ready_at.lock().unwrap().insert((*w, *r), mono_ns());
                unsafe {
                    if write_interest {
                        let mut sink = vec![0u8; 1 << 20];
                        let fl = libc::fcntl(socks[*w][1], libc::F_GETFL);
                        libc::fcntl(socks[*w][1], libc::F_SETFL, fl | libc::O_NONBLOCK);
                        while libc::read(socks[*w][1], sink.as_mut_ptr().cast(), sink.len()) > 0 {}
                    } else {
                        let m = [1u8; 4];
                        libc::write(socks[*w][1], m.as_ptr().cast(), 4);
                    }
                }
            }
        }
        let l = log.lock().unwrap();
        for w in 0..waiters {
            finished_rounds[w] = l.iter().filter(|e| e.0 == w).count();
        }
        let all = (0..waiters).all(|w| finished_rounds[w] >= if w < never_ready { 1 } else { rounds });
        drop(l);
        if all {
            break;
        }
        std::thread::sleep(Duration::from_millis(5));
    }
    let l = log.lock().unwrap().clone();
    let ra = ready_at.lock().unwrap().clone();
    let evs = RESUME_EVENTS.lock().unwrap().clone();
    let mut viol: Option<(String, String)> = None;
    let mut worst = 0u64;
    let mut woken_by_event = 0usize;
    for (w, r, id, t_start, t_ret, _ok) in &l {
        if *w < never_ready {
            let waited = t_ret - t_start;
            if waited < 2_900_000_000 {
                viol = viol.or(Some(("waiter-resumed-although-its-descriptor-never-became-ready".into(), format!("waiter {w} returned after {} ms, its descriptor was never made ready (timeout 3000 ms)", waited / 1_000_000))));
            }
            continue;
        }
        let Some(t_ready) = ra.get(&(*w, *r)) else {
            viol = viol.or(Some(("waiter-returned-before-readiness".into(), format!("waiter {w} round {r} returned although its descriptor had not been made ready"))));
            continue;
        };
        if t_ret < t_ready {
            viol = viol.or(Some(("waiter-returned-before-readiness".into(), format!("waiter {w} round {r}"))));
            continue;
        }
        let lat = t_ret - t_ready;
        worst = worst.max(lat);
        let hit = evs.iter().any(|(tok, reg, t)| tok == id && *reg == 1 && *t >= *t_ready && *t <= *t_ret + 1_000_000);
        if hit {
            woken_by_event += 1;
        }
        if lat > 1_000_000_000 {
            viol = viol.or(Some((format!("readiness-did-not-wake-the-waiter/{}", if *r == 0 { "first-wait" } else { "later-wait-in-same-call" }), format!("waiter {w} round {r}: descriptor ready, waiter returned {} ms later (its 3000 ms timeout) - readiness event seen by the loop with a matching token: {hit}", lat / 1_000_000))));
        } else if !hit {
            viol = viol.or(Some((format!("woken-without-a-readiness-event-for-its-token/{}", if *r == 0 { "first-wait" } else { "later-wait-in-same-call" }), format!("waiter {w} round {r} (coroutine id {id:#x}) returned {} us after readiness but the loop's resume-by-token path never saw its token as registered", lat / 1000))));
        }
    }
    // every "registered" resume must belong to a coroutine that was waiting on a descriptor that had been made ready
    for (tok, reg, t) in &evs {
        if *reg == 1 {
            let ok = l.iter().any(|(w, r, id, t_start, t_ret, _)| id == tok && *t >= *t_start && *t <= *t_ret + 1_000_000 && ra.get(&(*w, *r)).is_some_and(|tr| *tr <= *t));
            if !ok {
                viol = viol.or(Some(("readiness-resumed-a-coroutine-whose-descriptor-was-not-ready".into(), format!("token {tok:#x} resumed at {t} without its descriptor having been made ready"))));
            }
        }
    }
    let expected: usize = (never_ready..waiters).map(|_| rounds).sum::<usize>() + never_ready;
    if viol.is_none() && l.len() < expected {
        viol = Some(("waiter-never-returned".into(), format!("{} of {expected} waits completed within 20 s", l.len())));
    }
    let obs = jobj! {"waits_completed" => l.len(), "waits_woken_by_a_matching_readiness_event" => woken_by_event, "worst_wake_latency_ms" => worst / 1_000_000, "resume_events_observed" => evs.len(),
        "resume_events_with_unknown_token" => evs.iter().filter(|e| e.1 == 0).count()};
    let fp = format!("{waiters}|{rounds}|{write_interest}|{never_ready}");
    std::mem::forget(hs);
    if viol.as_ref().is_some_and(|v| v.0.starts_with("readiness-did-not-wake") || v.0.starts_with("waiter-never-returned")) && wl_core::overloaded() {
        out.end(case, Verdict::Inconclusive, "machine-overloaded-during-timing-case", false, &fp, obs, &viol.map(|v| v.1).unwrap_or_default());
        return;
    }
    match viol {
        Some((k, d)) => out.end(case, Verdict::Violated, &format!("C20/{k}"), true, &fp, obs, &d),
        None => out.end(case, Verdict::Held, "", woken_by_event > 0, &fp, obs, ""),
    }
}


// ====================================================================== C21
/// Kernel truth: fd -> union over every epoll instance of this process of the registered event bits.
fn epoll_interest() -> std::collections::HashMap<i32, u32> {
    let mut m = std::collections::HashMap::new();
    let Ok(rd) = std::fs::read_dir("/proc/self/fd") else { return m };
    for e in rd.flatten() {
        let Ok(link) = std::fs::read_link(e.path()) else { continue };
        if !link.to_string_lossy().contains("eventpoll") {
            continue;
        }
        let name = e.file_name().to_string_lossy().to_string();
        let Ok(info) = std::fs::read_to_string(format!("/proc/self/fdinfo/{name}")) else { continue };
        for line in info.lines() {
            // tfd:       12 events:     2019 data: ...
            let mut it = line.split_whitespace();
            if it.next() != Some("tfd:") {
                continue;
            }
            let (Some(fd), Some(_), Some(ev)) = (it.next(), it.next(), it.next()) else { continue };
            if let (Ok(fd), Ok(ev)) = (fd.parse::<i32>(), u32::from_str_radix(ev, 16)) {
                *m.entry(fd).or_insert(0) |= ev;
            }
        }
    }
    m
}

fn c21(seed: u64, case: u64, out: &Out) {
    use open_coroutine_core::syscall as oc;
    let mut rng = Rng::for_case(seed ^ 0xC21, case);
    let loops = if case % 4 == 3 { 2 } else { 1 };
    let nops = rng.usize(8, 40);
    let from_task = case % 2 == 1;
    init(loops, 16, 0, 0);
    // three socketpair "slots"; the runtime only ever sees side 0
    let mut socks: Vec<[i32; 2]> = vec![];
    for _ in 0..3 {
        let mut sv = [0; 2];
        assert_eq!(0, unsafe { libc::socketpair(libc::AF_UNIX, libc::SOCK_STREAM, 0, sv.as_mut_ptr()) });
        socks.push(sv);
    }
    const OPS: [&str; 9] = ["wait_read", "wait_write", "del_event", "del_read", "del_write", "shutdown_rd", "shutdown_wr", "shutdown_rdwr", "close_reopen"];
    let plan: Vec<(usize, usize)> = (0..nops)
        .map(|_| {
            let op = match rng.below(20) {
                0..=5 => 0,
                6..=10 => 1,
                11..=12 => 2,
                13 => 3,
                14 => 4,
                15 => 5,
                16 => 6,
                17 => 7,
                _ => 8,
            };
            (op, rng.usize(0, 2))
        })
        .collect();
    out.begin(case, jobj! {"event_loops" => loops, "issued_from" => if from_task {"inside tasks"} else {"a plain thread"},
        "history" => plan.iter().map(|(o, s)| format!("{}(s{s})", OPS[*o])).collect::<Vec<_>>().join(" ")});
    let mut model: Vec<(bool, bool)> = vec![(false, false); 3]; // (read, write) interest per slot
    let mut viol: Option<(String, String)> = None;
    let mut checks = 0usize;
    let mut reused = 0usize;
    let mut both_seen = false;
    for (step, (op, slot)) in plan.iter().enumerate() {
        let fd = socks[*slot][0];
        let do_op = {
            let op = *op;
            move || -> Result<(), String> {
                match op {
                    0 => EventLoops::wait_read_event(fd, Some(Duration::ZERO)).map_err(|e| e.to_string()),
                    1 => EventLoops::wait_write_event(fd, Some(Duration::ZERO)).map_err(|e| e.to_string()),
                    2 => EventLoops::del_event(fd).map_err(|e| e.to_string()),
                    3 => EventLoops::del_read_event(fd).map_err(|e| e.to_string()),
                    4 => EventLoops::del_write_event(fd).map_err(|e| e.to_string()),
                    5 => {
                        let _ = oc::shutdown(None, fd, libc::SHUT_RD);
                        Ok(())
                    }
                    6 => {
                        let _ = oc::shutdown(None, fd, libc::SHUT_WR);
                        Ok(())
                    }
                    7 => {
                        let _ = oc::shutdown(None, fd, libc::SHUT_RDWR);
                        Ok(())
                    }
                    _ => {
                        let _ = oc::close(None, fd);
                        Ok(())
                    }
                }
            }
        };
        let r = if from_task {
            let (tx, rx) = std::sync::mpsc::channel();
            let h = EventLoops::submit_task(None, move |_| {
                let _ = tx.send(do_op());
                None
            }, None, None);
            let r = rx.recv_timeout(Duration::from_secs(10));
            std::mem::forget(h);
            match r {
                Ok(r) => r,
                Err(_) => {
                    out.end(case, Verdict::Inconclusive, "harness/task-did-not-run", false, "", J::Null, &format!("step {step}"));
                    std::process::exit(3);
                }
            }
        } else {
            do_op()
        };
        let _ = r;
        match *op {
            0 => model[*slot].0 = true,
            1 => model[*slot].1 = true,
            2 | 7 => model[*slot] = (false, false),
            3 | 5 => model[*slot].0 = false,
            4 | 6 => model[*slot].1 = false,
            _ => {
                model[*slot] = (false, false);
                // reopen: the descriptor number is very likely reused
                unsafe { libc::close(socks[*slot][1]) };
                let mut sv = [0; 2];
                assert_eq!(0, unsafe { libc::socketpair(libc::AF_UNIX, libc::SOCK_STREAM, 0, sv.as_mut_ptr()) });
                if sv[0] == fd || sv[1] == fd {
                    reused += 1;
                }
                socks[*slot] = sv;
            }
        }
        if model[*slot] == (true, true) {
            both_seen = true;
        }
        // compare the kernel's registrations with the model for every slot
        let k = epoll_interest();
        for (i, sv) in socks.iter().enumerate() {
            let ev = k.get(&sv[0]).copied().unwrap_or(0);
            let got = (ev & 0x1 != 0, ev & 0x4 != 0);
            checks += 1;
            if got != model[i] && viol.is_none() {
                let kind = match (model[i], got) {
                    ((false, false), _) if *op == 8 && i == *slot => "reused-descriptor-inherits-stale-registration",
                    ((false, false), _) => "stale-interest-left-registered",
                    (_, (false, false)) => "outstanding-interest-not-registered",
                    _ => "registered-interest-differs-from-outstanding",
                };
                viol = Some((format!("{kind}/{}-loop", if loops > 1 { "multi" } else { "single" }),
                    format!("after step {step} {}(s{}): slot {i} (fd {}) kernel has read={} write={}, outstanding waits say read={} write={}", OPS[*op], slot, sv[0], got.0, got.1, model[i].0, model[i].1)));
            }
            // the peer side must never be registered
            if k.contains_key(&sv[1]) && viol.is_none() {
                viol = Some(("descriptor-never-waited-on-is-registered".into(), format!("fd {}", sv[1])));
            }
        }
        if viol.is_some() {
            break;
        }
    }
    let obs = jobj! {"steps" => nops, "model_vs_kernel_comparisons" => checks, "descriptor_numbers_reused" => reused, "read_and_write_interest_together_seen" => both_seen};
    let fp = format!("{loops}|{from_task}|{}", mon::fp_of(&format!("{plan:?}")));
    match viol {
        Some((k, d)) => out.end(case, Verdict::Violated, &format!("C21/{k}"), true, &fp, obs, &d),
        None => out.end(case, Verdict::Held, "", both_seen || reused > 0, &fp, obs, ""),
    }
}


// ====================================================================== C13
static C13_EVENTS: Mutex<Vec<(usize, &'static str, u64)>> = Mutex::new(Vec::new()); // (uid, "start"|"end", t)
static C13_GATE: AtomicU64 = AtomicU64::new(0); // pause hook: 0 = no hold, else hold until this flag is cleared

fn c13(seed: u64, case: u64, out: &Out) {
    let mut rng = Rng::for_case(seed ^ 0xC13, case);
    // 0 cancel while queued, 1 cancel while running, 2 cancel while suspended in a delay, 3 forced: the running target finishes between lookup and signal,
    // 4 late cancel: the target (detached: its handle was dropped) has finished long ago and its worker is busy with another task
    let phase = case % 5;
    let others = rng.usize(3, 12);
    let workers = if phase == 0 || phase == 4 { 1 } else if phase >= 2 { rng.usize(2, 3) } else { rng.usize(1, 3) };
    let victim_suspended = phase == 4 && rng.chance(1, 2);
    // every other "queued" case has two event loops: the cancelled task sits in the queue of the loop whose only worker is busy and is
    // taken over (stolen and discarded) by the other loop, while the waiter is already blocked on the loop the task was submitted to
    let two_loops = phase == 0 && (case / 5) % 2 == 1;
    out.begin(case, jobj! {"event_loops" => if two_loops {2} else {1}, "target_phase" => ["queued", "running", "suspended (delay)", "running, and it yields the thread to another task between the canceller's lookup and its signal (forced through the pause hook)",
        "finished: the target was detached (handle dropped) and ran to completion, the cancel arrives while its former worker runs or is parked in another task"][phase as usize],
        "other_tasks" => others, "pool_max_size" => workers});
    init(if two_loops { 2 } else { 1 }, workers, 0, 0);
    C13_EVENTS.lock().unwrap().clear();
    let stamp = |uid: usize, what: &'static str| C13_EVENTS.lock().unwrap().push((uid, what, mono_ns()));
    let release = Arc::new(AtomicBool::new(false));
    if phase == 3 {
        fn pauser(point: &'static str, _task: u64) {
            if point != "cancel:before_signal" {
                return;
            }
            C13_GATE.store(1, Ordering::SeqCst);
            let t0 = Instant::now();
            // hold the canceller until the driver says the target is done and a victim is running on that thread
            while C13_GATE.load(Ordering::SeqCst) == 1 && t0.elapsed() < Duration::from_secs(5) {
                std::thread::sleep(Duration::from_millis(1));
            }
        }
        open_coroutine_core::verif::set_pauser(Some(pauser));
    }
    let target_uid = 1000usize;
    let mut handles: Vec<(usize, open_coroutine_core::net::join::JoinHandle)> = vec![];
    // a blocker keeps the single worker busy so that the target is still queued when cancelled (phase 0)
    if phase == 0 {
        let h = EventLoops::submit_task(None, move |_| {
            stamp(0, "start");
            let t = Instant::now();
            while t.elapsed() < Duration::from_millis(60) {
                std::hint::spin_loop();
            }
            stamp(0, "end");
            Some(0)
        }, None, Some(-10));
        handles.push((0, h));
        std::thread::sleep(Duration::from_millis(15));
        if two_loops {
            // goes to the other loop (submissions alternate) and keeps a worker alive there for 25 ms; when it is done that worker looks for
            // work, finds nothing of its own and steals from the first loop
            let h = EventLoops::submit_task(None, move |_| {
                stamp(9000, "start");
                let t = Instant::now();
                while t.elapsed() < Duration::from_millis(25) {
                    std::hint::spin_loop();
                }
                stamp(9000, "end");
                Some(9000)
            }, None, Some(-10));
            handles.push((9000, h));
            std::thread::sleep(Duration::from_millis(2));
        }
    }
    let rel = release.clone();
    let th = EventLoops::submit_task(None, move |_| {
        stamp(target_uid, "start");
        match phase {
            1 => {
                let t = Instant::now();
                while !rel.load(Ordering::SeqCst) && t.elapsed() < Duration::from_millis(1500) {
                    std::hint::spin_loop();
                }
            }
            2 => {
                if let Some(s) = SchedulableSuspender::current() {
                    s.delay(Duration::from_millis(400));
                }
            }
            3 => {
                let t = Instant::now();
                while !rel.load(Ordering::SeqCst) && t.elapsed() < Duration::from_millis(1500) {
                    std::hint::spin_loop();
                }
                // leave the thread to somebody else while the canceller still believes we are running on it
                stamp(target_uid, "yielded");
                if let Some(s) = SchedulableSuspender::current() {
                    s.delay(Duration::from_millis(400));
                }
            }
            _ => {}
        }
        stamp(target_uid, "end");
        Some(target_uid)
    }, None, Some(0));
    let target_id = th.id().unwrap_or(0);
    let mut th = Some(th);
    let mut early: Option<(String, u64, bool)> = None;
    if two_loops {
        // cancel at once (the task is queued behind the blocker) and block in the join before the other loop gets to the task
        let not_started = !C13_EVENTS.lock().unwrap().iter().any(|e| e.0 == target_uid && e.1 == "start");
        EventLoops::try_cancel_task(target_id);
        let tj0 = Instant::now();
        let tr = th.as_ref().map(|h| h.timeout_join(Duration::from_secs(3)));
        early = Some((format!("{tr:?}"), tj0.elapsed().as_millis() as u64, not_started));
    }
    if phase == 4 {
        // detach the target before it has run
        drop(th.take());
    }
    for i in 1..=others {
        // phase 2: task 1 is a long spinner, so that somebody else is running on the thread when the suspended target is cancelled
        let kind = if phase == 4 && i == 1 { if victim_suspended { 3 } else { 1 } } else if phase == 3 || (phase == 2 && i == 1) { 1 } else { rng.below(3) };
        let h = EventLoops::submit_task(None, move |_| {
            stamp(i, "start");
            match kind {
                0 => {}
                1 => {
                    let t = Instant::now();
                    while t.elapsed() < Duration::from_millis(if phase == 3 { 150 } else if (phase == 2 || phase == 4) && i == 1 { 250 } else { 3 }) {
                        std::hint::spin_loop();
                    }
                }
                3 => {
                    if let Some(s) = SchedulableSuspender::current() {
                        s.delay(Duration::from_millis(250));
                    }
                }
                _ => {
                    if let Some(s) = SchedulableSuspender::current() {
                        s.delay(Duration::from_millis(10));
                    }
                }
            }
            stamp(i, "end");
            Some(i)
        }, None, Some(5));
        handles.push((i, h));
    }
    // ---- the cancel
    let started = |uid: usize| C13_EVENTS.lock().unwrap().iter().any(|e| e.0 == uid && e.1 == "start");
    let ended = |uid: usize| C13_EVENTS.lock().unwrap().iter().any(|e| e.0 == uid && e.1 == "end");
    let t0 = Instant::now();
    let mut cancel_phase_ok = true;
    match phase {
        0 if two_loops => {
            cancel_phase_ok = early.as_ref().is_some_and(|e| e.2);
        }
        0 => {
            if started(target_uid) {
                cancel_phase_ok = false;
            }
            EventLoops::try_cancel_task(target_id);
        }
        1 | 2 => {
            while !started(target_uid) && t0.elapsed() < Duration::from_secs(5) {
                std::thread::sleep(Duration::from_millis(1));
            }
            std::thread::sleep(Duration::from_millis(if phase == 2 { 60 } else { 20 }));
            cancel_phase_ok = started(target_uid) && !ended(target_uid);
            EventLoops::try_cancel_task(target_id);
            // give the (asynchronous) signal time to land on the target before it is allowed to finish
            std::thread::sleep(Duration::from_millis(5));
            release.store(true, Ordering::SeqCst);
        }
        4 => {
            // wait until the target is history and the first other task is running (or parked) on the only worker
            while !(ended(target_uid) && started(1)) && t0.elapsed() < Duration::from_secs(5) {
                std::thread::sleep(Duration::from_millis(1));
            }
            std::thread::sleep(Duration::from_millis(30));
            cancel_phase_ok = ended(target_uid) && started(1) && !ended(1);
            EventLoops::try_cancel_task(target_id);
        }
        _ => {
            while !started(target_uid) && t0.elapsed() < Duration::from_secs(5) {
                std::thread::sleep(Duration::from_millis(1));
            }
            std::thread::sleep(Duration::from_millis(10));
            let canceller = std::thread::spawn(move || EventLoops::try_cancel_task(target_id));
            // wait until the canceller sits in the window
            let t1 = Instant::now();
            while C13_GATE.load(Ordering::SeqCst) == 0 && t1.elapsed() < Duration::from_secs(2) {
                std::thread::sleep(Duration::from_millis(1));
            }
            cancel_phase_ok = C13_GATE.load(Ordering::SeqCst) == 1;
            // let the target finish, wait until some other task is running on that thread, then let the signal go
            release.store(true, Ordering::SeqCst);
            let t2 = Instant::now();
            loop {
                let evs = C13_EVENTS.lock().unwrap().clone();
                let target_done = evs.iter().any(|e| e.0 == target_uid && e.1 == "yielded");
                let victim_running = (1..=others).any(|i| evs.iter().any(|e| e.0 == i && e.1 == "start") && !evs.iter().any(|e| e.0 == i && e.1 == "end"));
                if (target_done && victim_running) || t2.elapsed() > Duration::from_secs(3) {
                    cancel_phase_ok = cancel_phase_ok && target_done && victim_running;
                    break;
                }
                std::thread::sleep(Duration::from_micros(200));
            }
            C13_GATE.store(0, Ordering::SeqCst);
            let _ = canceller.join();
        }
    }
    // ---- joins
    let mut viol: Option<(String, String)> = None;
    for (uid, h) in &handles {
        let r = h.timeout_join(Duration::from_secs(4));
        if !matches!(r, Ok(Ok(Some(v))) if v == *uid) {
            let st = started(*uid);
            let en = ended(*uid);
            let kind = if !st { "another-task-never-ran" } else if !en { "another-task-was-interrupted" } else { "another-task-lost-its-result" };
            let ctx = if kind == "another-task-was-interrupted" && (phase == 1 || phase == 3) { "cancel-signal-landed-on-another-coroutine".to_string() } else { format!("target-{}", ["queued", "running", "suspended", "yielded-between-lookup-and-signal", "had-finished-long-before"][phase as usize]) };
            viol = viol.or(Some((format!("{kind}/{ctx}"), format!("task {uid}: started={st} ended={en} join={r:?} (target phase: {})", ["queued", "running", "suspended", "yielded the thread between the canceller's lookup and its signal", "finished and detached; its former worker was busy with this task"][phase as usize]))));
        }
    }
    let tj0 = Instant::now();
    let (tr, tj) = match &early {
        Some((r, ms, _)) => (r.clone(), *ms),
        None => {
            let r = th.as_ref().map(|h| h.timeout_join(Duration::from_secs(3)));
            (format!("{r:?}"), tj0.elapsed().as_millis() as u64)
        }
    };
    if phase == 0 && cancel_phase_ok {
        if started(target_uid) {
            viol = viol.or(Some(("task-cancelled-before-start-ran-anyway".into(), "the target was cancelled while queued but it started".into())));
        } else if tj >= 2900 {
            viol = viol.or(Some(("waiter-of-task-cancelled-before-start-left-blocked".into(), format!("join on the cancelled (never started) task was still blocked after {tj} ms; every other task had finished long before"))));
        }
    }
    let evs = C13_EVENTS.lock().unwrap().clone();
    let obs = jobj! {"events" => evs.len(), "target_started" => started(target_uid), "target_ended" => ended(target_uid), "target_join" => tr.clone(), "target_join_ms" => tj,
        "cancel_issued_in_intended_phase" => cancel_phase_ok};
    let fp = format!("{phase}|{others}|{workers}|{two_loops}");
    std::mem::forget(handles);
    std::mem::forget(th);
    if !cancel_phase_ok {
        // the schedule we wanted was not produced (e.g. the canceller never reached the window); holding it in the hook may
        // itself have stalled the loop, so nothing observed in this run is judged
        out.end(case, Verdict::Inconclusive, "harness/cancel-missed-the-intended-phase", false, &fp, obs, "");
        return;
    }
    match viol {
        Some((k, d)) => out.end(case, Verdict::Violated, &format!("C13/{k}"), true, &fp, obs, &d),
        None => out.end(case, Verdict::Held, "", true, &fp, obs, ""),
    }
}

// ====================================================================== C12 (runtime level)
fn c12(seed: u64, case: u64, out: &Out) {
    let mut rng = Rng::for_case(seed ^ 0xC12, case);
    let loops = if case % 3 == 2 { 2 } else { 1 };
    let n = rng.usize(4, 40);
    let delayed_pct = if loops > 1 { 0 } else { *rng.pick(&[0u64, 30, 60]) }; // suspended workers + several loops: see the coroutine-migration finding
    let workers = *rng.pick(&[1usize, 2, 8]);
    out.begin(case, jobj! {"event_loops" => loops, "tasks_before_stop" => n, "percent_suspended_in_a_delay_when_stop_begins" => delayed_pct, "pool_max_size" => workers,
        "what" => "submit tasks, then EventLoops::stop while a second thread keeps submitting"});
    init(loops, workers, 0, 0);
    let ran: Arc<Mutex<std::collections::HashSet<usize>>> = Arc::default();
    let mut accepted: Vec<usize> = vec![];
    let mut hs = vec![];
    for i in 0..n {
        let delayed = rng.chance(delayed_pct, 100);
        let d = rng.range(50, 300);
        let r2 = ran.clone();
        let h = EventLoops::submit_task(None, move |_| {
            if delayed {
                if let Some(s) = SchedulableSuspender::current() {
                    s.delay(Duration::from_millis(d));
                }
            }
            r2.lock().unwrap().insert(i);
            Some(i)
        }, None, None);
        if h.id().is_ok() {
            accepted.push(i);
        }
        hs.push(h);
    }
    std::thread::sleep(Duration::from_millis(rng.range(0, 30)));
    // racing submitter
    let stop_returned = Arc::new(AtomicBool::new(false));
    let late: Arc<Mutex<Vec<(usize, bool, bool)>>> = Arc::default(); // (uid, accepted, submitted_after_stop_returned)
    let (sr, lt, rn) = (stop_returned.clone(), late.clone(), ran.clone());
    let racer = std::thread::spawn(move || {
        for k in 0..400usize {
            let uid = 10_000 + k;
            let after = sr.load(Ordering::SeqCst);
            let r3 = rn.clone();
            let h = EventLoops::submit_task(None, move |_| {
                r3.lock().unwrap().insert(uid);
                Some(uid)
            }, None, None);
            lt.lock().unwrap().push((uid, h.id().is_ok(), after));
            std::mem::forget(h);
            if after && k > 50 {
                break;
            }
            std::thread::sleep(Duration::from_micros(300));
        }
    });
    let t0 = Instant::now();
    let res = EventLoops::stop(Duration::from_secs(10));
    let stop_ms = t0.elapsed().as_millis() as u64;
    let ran_at_stop: std::collections::HashSet<usize> = ran.lock().unwrap().clone();
    stop_returned.store(true, Ordering::SeqCst);
    let _ = racer.join();
    std::thread::sleep(Duration::from_millis(50));
    let late = late.lock().unwrap().clone();
    let mut viol: Option<(String, String)> = None;
    if res.is_ok() {
        let missing: Vec<usize> = accepted.iter().copied().filter(|i| !ran_at_stop.contains(i)).collect();
        if !missing.is_empty() {
            viol = Some(("stop-reported-success-before-accepted-tasks-ran".into(), format!("{} of {} tasks accepted before stop began had not run when stop returned Ok after {stop_ms} ms, e.g. task {}", missing.len(), accepted.len(), missing[0])));
        }
        let late_missing: Vec<usize> = late.iter().filter(|(u, acc, _)| *acc && !ran_at_stop.contains(u) && !ran.lock().unwrap().contains(u)).map(|x| x.0).collect();
        if viol.is_none() && !late_missing.is_empty() {
            viol = Some(("task-accepted-while-stopping-never-ran".into(), format!("{} submissions were accepted (non-zero task id) during the stop but never ran, e.g. {}", late_missing.len(), late_missing[0])));
        }
    } else if stop_ms >= 9_900 {
        viol = Some(("stop-timed-out".into(), format!("EventLoops::stop(10 s) failed after {stop_ms} ms: {res:?}; {} of {} accepted tasks had run", accepted.iter().filter(|i| ran_at_stop.contains(i)).count(), accepted.len())));
    }
    let accepted_after: Vec<usize> = late.iter().filter(|(_, acc, after)| *acc && *after).map(|x| x.0).collect();
    if viol.is_none() && !accepted_after.is_empty() {
        viol = Some(("submission-accepted-after-stop-returned".into(), format!("{} submissions made after stop had returned were accepted, e.g. {}", accepted_after.len(), accepted_after[0])));
    }
    let obs = jobj! {"stop_result" => format!("{res:?}"), "stop_ms" => stop_ms, "accepted_before_stop" => accepted.len(), "ran_when_stop_returned" => ran_at_stop.len(),
        "racing_submissions" => late.len(), "racing_submissions_accepted" => late.iter().filter(|x| x.1).count(), "racing_submissions_rejected" => late.iter().filter(|x| !x.1).count()};
    let fp = format!("{loops}|{n}|{delayed_pct}|{workers}");
    std::mem::forget(hs);
    match viol {
        Some((k, d)) => out.end(case, Verdict::Violated, &format!("C12/{k}/{}-loop", if loops > 1 { "multi" } else { "single" }), true, &fp, obs, &d),
        None => out.end(case, Verdict::Held, "", late.iter().any(|x| !x.1) && delayed_pct > 0, &fp, obs, ""),
    }
}

fn main() {
    let args = Args::parse();
    let out = Out::open(&args);
    wl_core::quiet_panics();
    let seed = args.u64("seed", 1);
    let (a, _b) = case_range(&args, 1);
    let case = a; // one configuration per process: EventLoops::init is once-only
    match args.pos.first().map(String::as_str) {
        Some("c01") => c01(seed, case, &out),
        Some("c02") => c02(seed, case, &out),
        Some("c15") => c15(seed, case, &out),
        Some("c20") => c20(seed, case, &out),
        Some("c21") => c21(seed, case, &out),
        Some("c13") => c13(seed, case, &out),
        Some("c12") => c12(seed, case, &out),
        other => {
            eprintln!("unknown subcommand {other:?}");
            std::process::exit(64);
        }
    }
    std::process::exit(0);
}
