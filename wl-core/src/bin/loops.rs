//! EventLoops-level workloads (one process = one configuration = one case):
//! C01 exactly-once, C02 join, C12 stop, C13 cancel, C15 concurrency of blocked coroutines.
//! usage: loops <c01|c02|c12|c13|c15> --seed S --case I [--out F]     (the driver passes --from I --to I+1)
#![allow(clippy::too_many_lines, clippy::type_complexity)]
use mon::{case_range, jobj, Args, Out, Rng, Verdict, J};
use open_coroutine_core::config::Config;
use open_coroutine_core::net::EventLoops;
use open_coroutine_core::scheduler::SchedulableSuspender;
use std::sync::atomic::{AtomicBool, AtomicU32, AtomicU64, AtomicUsize, Ordering};
use std::sync::{Arc, Mutex};
use std::time::{Duration, Instant};
use wl_core::mono_ns;

fn init(loops: usize, max_size: usize, min_size: usize, keep_alive_ns: u64) {
    let mut cfg = Config::single();
    let _ = cfg.set_event_loop_size(loops).set_min_size(min_size).set_max_size(max_size).set_keep_alive_time(keep_alive_ns).set_hook(false);
    EventLoops::init(&cfg);
}

fn cpu_clock_of_self() -> u64 {
    let mut c: libc::clockid_t = 0;
    unsafe { libc::pthread_getcpuclockid(libc::pthread_self(), &mut c) };
    c as u64
}

fn cpu_ns(clock: u64) -> u64 {
    let mut ts = libc::timespec { tv_sec: 0, tv_nsec: 0 };
    if unsafe { libc::clock_gettime(clock as libc::clockid_t, &mut ts) } != 0 {
        return 0;
    }
    ts.tv_sec as u64 * 1_000_000_000 + ts.tv_nsec as u64
}

#[derive(Clone, Copy, Debug)]
enum Body {
    Instant,
    Suspend,
    Delay1ms,
    Busy,
}

struct SubmitSlot {
    clock: AtomicU64,
    in_call: AtomicU64, // 0 = not inside submit_task, else uid+1
    done: AtomicBool,
}

// ====================================================================== C01
fn c01(seed: u64, case: u64, out: &Out) {
    let mut rng = Rng::for_case(seed ^ 0xC01, case);
    let loops = *rng.pick(&[1usize, 2, 4, 8]);
    let submitters = *rng.pick(&[1usize, 2, 4, 16]);
    let per = *rng.pick(&[200usize, 600, 2000, 6000]);
    let prio_mix = rng.below(3);
    let body = *rng.pick(&[Body::Instant, Body::Instant, Body::Suspend, Body::Delay1ms, Body::Busy]);
    let max_size = *rng.pick(&[1usize, 4, 256]);
    let total = submitters * per;
    out.begin(case, jobj! {"event_loops" => loops, "submitter_threads" => submitters, "tasks_per_submitter" => per, "priority_mix" => ["constant", "5 levels", "random i64 incl. MIN/MAX"][prio_mix as usize],
        "task_body" => format!("{body:?}"), "pool_max_size" => max_size});
    init(loops, max_size, 0, 0);
    let counts: Arc<Vec<AtomicU32>> = Arc::new((0..total).map(|_| AtomicU32::new(0)).collect());
    let exec_threads: Arc<Mutex<std::collections::HashSet<u64>>> = Arc::default();
    let executed = Arc::new(AtomicUsize::new(0));
    let slots: Arc<Vec<SubmitSlot>> = Arc::new((0..submitters).map(|_| SubmitSlot { clock: AtomicU64::new(0), in_call: AtomicU64::new(0), done: AtomicBool::new(false) }).collect());
    let start = Arc::new(std::sync::Barrier::new(submitters + 1));
    let mut ths = vec![];
    let t_first = Arc::new(AtomicU64::new(0));
    let t_last_start = Arc::new(AtomicU64::new(0));
    for s in 0..submitters {
        let (counts, slots, start, exec_threads, executed) = (counts.clone(), slots.clone(), start.clone(), exec_threads.clone(), executed.clone());
        let (t_first, t_last_start) = (t_first.clone(), t_last_start.clone());
        let mut r = Rng::for_case(seed ^ 0x5AB, case * 64 + s as u64);
        ths.push(std::thread::spawn(move || {
            slots[s].clock.store(cpu_clock_of_self(), Ordering::SeqCst);
            start.wait();
            t_last_start.fetch_max(mono_ns(), Ordering::SeqCst);
            let mut mine = vec![];
            for k in 0..per {
                let uid = s * per + k;
                let prio = match prio_mix {
                    0 => 0,
                    1 => r.below(5) as i64 - 2,
                    _ => *r.pick(&[i64::MIN, i64::MAX, 0, -1, 1, 7]) ^ (r.below(2) as i64),
                };
                let (c2, et, ex) = (counts.clone(), exec_threads.clone(), executed.clone());
                slots[s].in_call.store(uid as u64 + 1, Ordering::SeqCst);
                let h = EventLoops::submit_task(
                    None,
                    move |_| {
                        c2[uid].fetch_add(1, Ordering::SeqCst);
                        ex.fetch_add(1, Ordering::SeqCst);
                        if uid % 64 == 0 {
                            et.lock().unwrap().insert(unsafe { libc::pthread_self() } as u64);
                        }
                        match body {
                            Body::Instant => {}
                            Body::Suspend => {
                                if let Some(s) = SchedulableSuspender::current() {
                                    s.suspend();
                                }
                            }
                            Body::Delay1ms => {
                                if let Some(s) = SchedulableSuspender::current() {
                                    s.delay(Duration::from_millis(1));
                                }
                            }
                            Body::Busy => {
                                let t = Instant::now();
                                while t.elapsed() < Duration::from_micros(50) {
                                    std::hint::spin_loop();
                                }
                            }
                        }
                        Some(uid)
                    },
                    None,
                    Some(prio),
                );
                slots[s].in_call.store(0, Ordering::SeqCst);
                mine.push(h);
            }
            t_first.fetch_max(mono_ns(), Ordering::SeqCst);
            std::mem::forget(mine); // JoinHandle is !Send; results simply stay in the pool
            slots[s].done.store(true, Ordering::SeqCst);
        }));
    }
    start.wait();
    // ---- watchdog over submit calls (C04's clause), then quiescence detection
    let mut last: Vec<(u64, u64)> = vec![(0, 0); submitters];
    let t0 = Instant::now();
    let mut stuck: Option<(usize, u64)> = None;
    while !slots.iter().all(|s| s.done.load(Ordering::SeqCst)) {
        std::thread::sleep(Duration::from_millis(10));
        for (i, s) in slots.iter().enumerate() {
            let cur = s.in_call.load(Ordering::SeqCst);
            let ck = s.clock.load(Ordering::SeqCst);
            if cur == 0 || ck == 0 {
                last[i] = (0, 0);
                continue;
            }
            let cpu = cpu_ns(ck);
            if last[i].0 != cur {
                last[i] = (cur, cpu);
            } else if cpu.saturating_sub(last[i].1) > 1_000_000_000 {
                stuck = Some((i, cur - 1));
            }
        }
        if stuck.is_some() || t0.elapsed() > Duration::from_secs(120) {
            break;
        }
    }
    if let Some((i, uid)) = stuck {
        out.end(case, Verdict::Inconclusive, "blocked-by:C04/submit_task-never-returns", false, "", jobj! {"stuck_submitter" => i, "uid" => uid}, "a submitter burned > 1 s of CPU inside one submit_task call");
        std::process::exit(3);
    }
    if !slots.iter().all(|s| s.done.load(Ordering::SeqCst)) {
        out.end(case, Verdict::Inconclusive, "harness/submitters-not-finished", false, "", J::Null, "outer watchdog");
        std::process::exit(3);
    }
    // all submitted. Wait until every task ran, or nothing new runs for 3 s while probes show the loops are alive
    let mut last_exec = executed.load(Ordering::SeqCst);
    let mut last_progress = Instant::now();
    let probe_runs = Arc::new(AtomicUsize::new(0));
    let mut probes_sent = 0usize;
    let mut dup: Option<usize> = None;
    let deadline = Instant::now() + Duration::from_secs(90);
    let mut probe_handles = vec![];
    loop {
        let e = executed.load(Ordering::SeqCst);
        if e != last_exec {
            last_exec = e;
            last_progress = Instant::now();
        }
        if let Some(i) = counts.iter().position(|c| c.load(Ordering::SeqCst) > 1) {
            dup = Some(i);
            break;
        }
        if counts.iter().all(|c| c.load(Ordering::SeqCst) == 1) {
            break;
        }
        if last_progress.elapsed() > Duration::from_secs(3) || Instant::now() > deadline {
            break;
        }
        // heartbeat
        let pr = probe_runs.clone();
        probe_handles.push(EventLoops::submit_task(None, move |_| {
            pr.fetch_add(1, Ordering::SeqCst);
            None
        }, None, Some(i64::MIN)));
        probes_sent += 1;
        std::thread::sleep(Duration::from_millis(50));
    }
    std::thread::sleep(Duration::from_millis(100));
    let never: Vec<usize> = counts.iter().enumerate().filter(|(_, c)| c.load(Ordering::SeqCst) == 0).map(|(i, _)| i).collect();
    let twice: Vec<usize> = counts.iter().enumerate().filter(|(_, c)| c.load(Ordering::SeqCst) > 1).map(|(i, _)| i).collect();
    let nthreads = exec_threads.lock().unwrap().len();
    let probes_ran = probe_runs.load(Ordering::SeqCst);
    let overlap = submitters >= 2;
    let obs = jobj! {"submitted" => total, "executed_once" => total - never.len() - twice.len(), "never_executed" => never.len(), "executed_more_than_once" => twice.len(),
        "loop_threads_that_ran_tasks(sampled)" => nthreads, "heartbeat_probes_sent" => probes_sent, "heartbeat_probes_executed" => probes_ran, "burst_exceeds_local_capacity" => per > 256};
    let fp = format!("{loops}|{submitters}|{per}|{prio_mix}|{body:?}|{max_size}");
    let nontrivial = overlap && per > 256;
    let _ = dup;
    if !twice.is_empty() {
        out.end(case, Verdict::Violated, &format!("C01/task-executed-twice/{}", if submitters > 1 { "multi-submitter" } else { "single-submitter" }), true, &fp, obs, &format!("{} tasks ran more than once, e.g. uid {}", twice.len(), twice[0]));
    } else if !never.is_empty() {
        let alive = probes_sent > 0 && probes_ran * 2 >= probes_sent.saturating_sub(2);
        let kind = if alive { "task-stranded-while-runtime-keeps-scheduling" } else { "runtime-stopped-scheduling-with-tasks-outstanding" };
        out.end(case, Verdict::Violated, &format!("C01/{kind}/{}", if submitters > 1 { "multi-submitter" } else { "single-submitter" }), true, &fp, obs,
            &format!("{} of {total} tasks never ran (e.g. uid {}), no new execution for 3 s; heartbeat probes executed {probes_ran}/{probes_sent}", never.len(), never[0]));
    } else {
        out.end(case, Verdict::Held, "", nontrivial, &fp, obs, "");
    }
    std::mem::forget(probe_handles);
    std::mem::forget(ths);
}

// ====================================================================== C02
fn c02(seed: u64, case: u64, out: &Out) {
    let mut rng = Rng::for_case(seed ^ 0xC02, case);
    let loops = *rng.pick(&[1usize, 2, 4]);
    let joiners = *rng.pick(&[1usize, 2, 4, 16]);
    let per = rng.usize(20, 120);
    let forced = case % 3 == 0; // force "completion lands between first check and registration" through the pause hook
    out.begin(case, jobj! {"event_loops" => loops, "joiner_threads" => joiners, "tasks_per_joiner" => per, "forced_schedule" => if forced {"waiter paused after its first result check until the task finished + 20 ms"} else {"none"}});
    init(loops, 256, 0, 0);
    static FINISHED: Mutex<Option<std::collections::HashMap<u64, u64>>> = Mutex::new(None);
    *FINISHED.lock().unwrap() = Some(std::collections::HashMap::new());
    static PAUSE_HITS: AtomicUsize = AtomicUsize::new(0);
    if forced {
        fn pauser(point: &'static str, task_id: u64) {
            if point != "join:after_first_check" {
                return;
            }
            PAUSE_HITS.fetch_add(1, Ordering::SeqCst);
            // hold the waiter until the task has finished (result stored, notify found nobody), then 20 ms more
            let t0 = Instant::now();
            loop {
                let fin = FINISHED.lock().unwrap().as_ref().and_then(|m| m.get(&task_id).copied());
                if let Some(t) = fin {
                    let since = mono_ns().saturating_sub(t);
                    if since < 20_000_000 {
                        std::thread::sleep(Duration::from_nanos(20_000_000 - since));
                    }
                    return;
                }
                if t0.elapsed() > Duration::from_secs(2) {
                    return;
                }
                std::thread::sleep(Duration::from_millis(1));
            }
        }
        open_coroutine_core::verif::set_pauser(Some(pauser));
    }
    let results: Arc<Mutex<Vec<(usize, String, String, u64, bool)>>> = Arc::default(); // (uid, want, got, latency_ns after max(call, finish), issued_before_finish)
    let mut ths = vec![];
    for j in 0..joiners {
        let results = results.clone();
        let mut r = Rng::for_case(seed ^ 0xC02A, case * 64 + j as u64);
        ths.push(std::thread::spawn(move || {
            for k in 0..per {
                let uid = j * 10_000 + k;
                let kind = r.below(5); // 0 instant, 1 busy 1 ms, 2 delay 5 ms, 3 panic static, 4 panic formatted
                let name = format!("c02-{uid}-{}", r.next_u64());
                let name2 = name.clone();
                let h = EventLoops::submit_task(
                    Some(name),
                    move |_| {
                        match kind {
                            1 => {
                                let t = Instant::now();
                                while t.elapsed() < Duration::from_millis(1) {
                                    std::hint::spin_loop();
                                }
                            }
                            2 => {
                                if let Some(s) = SchedulableSuspender::current() {
                                    s.delay(Duration::from_millis(5));
                                }
                            }
                            _ => {}
                        }
                        // stamp "finished" as the last statement (a panic is the last statement too)
                        let id = {
                            use std::hash::{DefaultHasher, Hash, Hasher};
                            let mut h = DefaultHasher::new();
                            name2.hash(&mut h);
                            h.finish()
                        };
                        if let Some(m) = FINISHED.lock().unwrap().as_mut() {
                            m.insert(id, mono_ns());
                        }
                        match kind {
                            3 => panic!("static message of a c02 task"),
                            4 => panic!("formatted message of task {uid}"),
                            _ => Some(uid + 1),
                        }
                    },
                    None,
                    None,
                );
                let id = h.id().unwrap_or(0);
                if r.chance(1, 3) {
                    std::thread::sleep(Duration::from_micros(r.below(3000)));
                }
                let t_call = mono_ns();
                let fin_before = FINISHED.lock().unwrap().as_ref().and_then(|m| m.get(&id).copied());
                let got = h.timeout_join(Duration::from_secs(4));
                let t_ret = mono_ns();
                let fin = FINISHED.lock().unwrap().as_ref().and_then(|m| m.get(&id).copied()).unwrap_or(t_ret);
                let want = match kind {
                    3 => "Err(static message of a c02 task)".to_string(),
                    4 => format!("Err(formatted message of task {uid})"),
                    _ => format!("Ok(Some({}))", uid + 1),
                };
                let gots = match &got {
                    Ok(Ok(v)) => format!("Ok({v:?})"),
                    Ok(Err(m)) => format!("Err({m})"),
                    Err(e) => format!("JoinError({:?})", e.kind()),
                };
                let lat = t_ret.saturating_sub(t_call.max(fin));
                results.lock().unwrap().push((uid, want, gots, lat, fin_before.is_none()));
                drop(h);
            }
        }));
    }
    let t0 = Instant::now();
    for t in ths {
        // joiners use 4 s timeouts, so they always come back
        let _ = t.join();
    }
    let rs = results.lock().unwrap().clone();
    let mut viol: Option<(String, String)> = None;
    let mut worst = 0u64;
    let mut early = 0usize;
    for (uid, want, got, lat, before) in &rs {
        worst = worst.max(*lat);
        if *before {
            early += 1;
        }
        if got != want {
            let kind = if got.starts_with("JoinError(TimedOut") { "join-timed-out-although-task-finished" } else if got.starts_with("JoinError") { "join-failed" } else { "join-returned-another-outcome" };
            let ctx = if loops > 1 { "multi-loop" } else { "single-loop" };
            viol = viol.or(Some((format!("{kind}/{ctx}{}", if forced { "/completion-between-check-and-register" } else { "" }), format!("task {uid}: joined {got}, its own outcome is {want} (latency after finish {lat} ns)"))));
        } else if *lat > 1_000_000_000 {
            viol = viol.or(Some((format!("join-not-prompt{}", if forced { "/completion-between-check-and-register" } else { "" }), format!("task {uid}: join returned {} ms after the task had finished", lat / 1_000_000))));
        }
    }
    let hits = PAUSE_HITS.load(Ordering::SeqCst);
    let obs = jobj! {"joins" => rs.len(), "joins_issued_before_task_finished" => early, "worst_latency_after_finish_ms" => worst / 1_000_000, "pause_hook_hits" => hits, "wall_ms" => t0.elapsed().as_millis() as u64};
    let fp = format!("{loops}|{joiners}|{per}|{forced}");
    match viol {
        Some((k, d)) => out.end(case, Verdict::Violated, &format!("C02/{k}"), true, &fp, obs, &d),
        None => out.end(case, Verdict::Held, "", early > 0 || hits > 0, &fp, obs, ""),
    }
}

fn main() {
    let args = Args::parse();
    let out = Out::open(&args);
    wl_core::quiet_panics();
    let seed = args.u64("seed", 1);
    let (a, _b) = case_range(&args, 1);
    let case = a; // one configuration per process: EventLoops::init is once-only
    match args.pos.first().map(String::as_str) {
        Some("c01") => c01(seed, case, &out),
        Some("c02") => c02(seed, case, &out),
        other => {
            eprintln!("unknown subcommand {other:?}");
            std::process::exit(64);
        }
    }
    std::process::exit(0);
}
