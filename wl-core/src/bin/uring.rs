//! C27 — io_uring completions reach the call that submitted them (build with --features io_uring). One case per process.
//! usage: uring c27 --seed S --from I --to I+1
#![allow(clippy::too_many_lines)]
use mon::{case_range, jobj, Args, Out, Rng, Verdict, J};
use open_coroutine_core::config::Config;
use open_coroutine_core::net::EventLoops;
use open_coroutine_core::syscall as oc;
use std::sync::atomic::{AtomicU64, AtomicUsize, Ordering};
use std::sync::{Arc, Mutex};
use std::time::{Duration, Instant};

fn errno() -> i32 {
    std::io::Error::last_os_error().raw_os_error().unwrap_or(0)
}

static PAUSE_TARGET: AtomicU64 = AtomicU64::new(0); // pause the n-th submission (1-based), 0 = never
static SUBMISSIONS: AtomicU64 = AtomicU64::new(0);
static PAUSED: AtomicUsize = AtomicUsize::new(0);
static STARVED: AtomicUsize = AtomicUsize::new(0);
static TIMED_OUT_CALLS: AtomicUsize = AtomicUsize::new(0);

fn pauser(point: &'static str, _token: u64) {
    if point != "uring:after_submit" {
        return;
    }
    // a coroutine caller runs on the loop thread itself, so the loop cannot reap anything while it is held;
    // the window only exists for callers on other threads
    if std::thread::current().name().is_some_and(|n| n.contains("open-coroutine")) {
        return;
    }
    let n = SUBMISSIONS.fetch_add(1, Ordering::SeqCst) + 1;
    if n == PAUSE_TARGET.load(Ordering::SeqCst) {
        PAUSED.fetch_add(1, Ordering::SeqCst);
        // long enough for the kernel to complete the request and for the loop to reap the completion
        std::thread::sleep(Duration::from_millis(80));
    }
}

/// A connected TCP pair over loopback (sender, receiver).
fn tcp_pair() -> (libc::c_int, libc::c_int) {
    use std::os::fd::IntoRawFd;
    let l = std::net::TcpListener::bind("127.0.0.1:0").expect("bind");
    let c = std::net::TcpStream::connect(l.local_addr().expect("addr")).expect("connect");
    let (a, _) = l.accept().expect("accept");
    let _ = c.set_nodelay(true);
    (c.into_raw_fd(), a.into_raw_fd())
}

/// One caller's program: every op checks its own result; returns the list of problems found.
fn caller(id: usize, ops: usize, seed: u64, dir: &str, log: &Mutex<Vec<String>>, done_ops: &AtomicUsize, timeout_first: bool) {
    let mut rng = Rng::for_case(seed, id as u64);
    let path = format!("{dir}/f{id}\0");
    let fd = unsafe { libc::open(path.as_ptr().cast(), libc::O_RDWR | libc::O_CREAT | libc::O_TRUNC, 0o600) };
    let rofd = unsafe { libc::open(path.as_ptr().cast(), libc::O_RDONLY) };
    let mut sv = [0; 2];
    assert_eq!(0, unsafe { libc::socketpair(libc::AF_UNIX, libc::SOCK_STREAM, 0, sv.as_mut_ptr()) });
    if timeout_first {
        // a receive that runs into the socket's own 20 ms timeout; every later call of this caller must still get its own result
        // on a socket pair of its own, never used again: the abandoned request stays in flight in the kernel
        let mut tsv = [0; 2];
        assert_eq!(0, unsafe { libc::socketpair(libc::AF_UNIX, libc::SOCK_STREAM, 0, tsv.as_mut_ptr()) });
        let tv = libc::timeval { tv_sec: 0, tv_usec: 20_000 };
        let _ = oc::setsockopt(None, tsv[1], libc::SOL_SOCKET, libc::SO_RCVTIMEO, (&raw const tv).cast(), std::mem::size_of::<libc::timeval>() as libc::socklen_t);
        let mut b = [0u8; 8];
        oc::set_errno(0);
        let t = Instant::now();
        let r = oc::recv(None, tsv[1], b.as_mut_ptr().cast(), 8, 0);
        let e = errno();
        TIMED_OUT_CALLS.fetch_add(1, Ordering::SeqCst);
        if r != -1 || (e != libc::ETIMEDOUT && e != libc::EAGAIN) || t.elapsed() < Duration::from_millis(19) {
            log.lock().unwrap().push(format!("caller {id}: recv on an empty socket with a 20 ms timeout returned {r} errno {e} after {} ms, expected -1 ETIMEDOUT/EAGAIN after 20 ms", t.elapsed().as_millis()));
        }
    }
    let problem = |s: String| { if std::env::var_os("VERBOSE_PANICS").is_some() { eprintln!("caller {id}: {s}"); } log.lock().unwrap().push(format!("caller {id}: {s}")) };
    for k in 0..ops {
        let tag = ((id as u64) << 32) | k as u64;
        match if rng.chance(1, 16) { 8 } else if rng.chance(1, 12) { 9 } else if rng.chance(1, 10) { 10 } else if rng.chance(1, 3) { 11 + rng.below(5) } else { rng.below(8) } {
            0 | 1 => {
                // unique block written at a unique offset, read back
                let off = (k * 64) as libc::off_t;
                let block: Vec<u8> = (0..48).map(|i| (tag.wrapping_mul(31).wrapping_add(i) % 251) as u8).collect();
                let w = oc::pwrite(None, fd, block.as_ptr().cast(), block.len(), off);
                if w != block.len() as isize {
                    problem(format!("op {k} pwrite returned {w} errno {} (expected {})", errno(), block.len()));
                    continue;
                }
                let mut back = vec![0u8; 48];
                let r = oc::pread(None, fd, back.as_mut_ptr().cast(), 48, off);
                if r != 48 || back != block {
                    problem(format!("op {k} pread returned {r} errno {}, data {}", errno(), if back == block { "ok" } else { "belongs to somebody else / wrong" }));
                }
            }
            2 => {
                let msg: Vec<u8> = tag.to_le_bytes().to_vec();
                let s = oc::send(None, sv[0], msg.as_ptr().cast(), 8, 0);
                let mut back = [0u8; 8];
                let r = oc::recv(None, sv[1], back.as_mut_ptr().cast(), 8, 0);
                if s != 8 || r != 8 || back.to_vec() != msg {
                    problem(format!("op {k} send/recv returned {s}/{r} errno {}, payload {:x?} expected {:x?}", errno(), back, msg));
                }
            }
            3 => {
                // negative completion: writing through a read-only descriptor
                oc::set_errno(0);
                let b = [1u8; 4];
                let r = oc::pwrite(None, rofd, b.as_ptr().cast(), 4, 0);
                let e = errno();
                if r != -1 || e != libc::EBADF {
                    problem(format!("op {k} pwrite(read-only fd) returned {r} errno {e}, expected -1/EBADF"));
                }
            }
            4 => {
                // negative completion: socket receive on a regular file
                oc::set_errno(0);
                let mut b = [0u8; 4];
                let r = oc::recv(None, fd, b.as_mut_ptr().cast(), 4, 0);
                let e = errno();
                if r != -1 || e != libc::ENOTSOCK {
                    problem(format!("op {k} recv(regular file) returned {r} errno {e}, expected -1/ENOTSOCK"));
                }
            }
            8 => {
                // a finished call must leave nothing behind that ends the next one: send with a 300 ms send timeout completes at once,
                // then a receive (no timeout of its own) waits 600 ms for its data
                let tv = libc::timeval { tv_sec: 0, tv_usec: 300_000 };
                let _ = oc::setsockopt(None, sv[0], libc::SOL_SOCKET, libc::SO_SNDTIMEO, (&raw const tv).cast(), std::mem::size_of::<libc::timeval>() as libc::socklen_t);
                let msg: Vec<u8> = tag.to_le_bytes().to_vec();
                oc::set_errno(0);
                let ts = Instant::now();
                let s = oc::send(None, sv[0], msg.as_ptr().cast(), 8, 0);
                if s == -1 && errno() == libc::ETIMEDOUT {
                    if std::env::var_os("VERBOSE_PANICS").is_some() {
                        eprintln!("caller {id}: op {k} send timed out after {} us", ts.elapsed().as_micros());
                    }
                    // the loop thread was starved for 300 ms: nothing to judge, and this caller must not issue another call (see the timed-out-call scenario)
                    STARVED.fetch_add(1, Ordering::SeqCst);
                    done_ops.fetch_add(ops - k, Ordering::SeqCst);
                    return;
                }
                let mut first = [0u8; 8];
                let r0 = oc::recv(None, sv[1], first.as_mut_ptr().cast(), 8, 0);
                let peer = sv[0];
                let late = tag ^ 0x5555;
                drop(std::thread::spawn(move || {
                    std::thread::sleep(Duration::from_millis(600));
                    unsafe { libc::write(peer, late.to_le_bytes().as_ptr().cast(), 8) }
                }));
                oc::set_errno(0);
                let t = Instant::now();
                let mut back = [0u8; 8];
                let r = oc::recv(None, sv[1], back.as_mut_ptr().cast(), 8, 0);
                let e = errno();
                if s != 8 || r0 != 8 || first.to_vec() != msg {
                    problem(format!("op {k} send/recv returned {s}/{r0}, payload {first:x?} expected {msg:x?}"));
                } else if r != 8 || back != late.to_le_bytes() {
                    problem(format!("op {k} recv whose data arrives after 600 ms returned {r} errno {e} after {} ms (expected its 8 bytes); the send before it had a 300 ms timeout and had completed", t.elapsed().as_millis()));
                    // the abandoned request is still in flight and this caller's wait slot is taken: stop here
                    done_ops.fetch_add(ops - k, Ordering::SeqCst);
                    return;
                }
                let tv = libc::timeval { tv_sec: 0, tv_usec: 0 };
                let _ = oc::setsockopt(None, sv[0], libc::SOL_SOCKET, libc::SO_SNDTIMEO, (&raw const tv).cast(), std::mem::size_of::<libc::timeval>() as libc::socklen_t);
            }
            9 => {
                // the timeout of the *other* direction must not end a call: a write-type call on a full socket whose SO_RCVTIMEO is 100 ms,
                // or a read-type call on an empty socket whose SO_SNDTIMEO is 100 ms; the peer acts after 300 ms
                let mut p = [0; 2];
                assert_eq!(0, unsafe { libc::socketpair(libc::AF_UNIX, libc::SOCK_STREAM, 0, p.as_mut_ptr()) });
                let (me, peer) = (p[0], p[1]);
                // (sendto is left out: it is submitted as a zero-copy send, which AF_UNIX sockets answer with EOPNOTSUPP - the call's own completion)
                let call = *rng.pick(&["send", "sendmsg", "write", "writev", "recv", "recvmsg", "read", "readv"]);
                let writing = matches!(call, "send" | "sendmsg" | "write" | "writev");
                let tv = libc::timeval { tv_sec: 0, tv_usec: 100_000 };
                let _ = oc::setsockopt(None, me, libc::SOL_SOCKET, if writing { libc::SO_RCVTIMEO } else { libc::SO_SNDTIMEO }, (&raw const tv).cast(), std::mem::size_of::<libc::timeval>() as libc::socklen_t);
                if writing {
                    unsafe {
                        let fl = libc::fcntl(me, libc::F_GETFL);
                        libc::fcntl(me, libc::F_SETFL, fl | libc::O_NONBLOCK);
                        let junk = [3u8; 65536];
                        while libc::write(me, junk.as_ptr().cast(), junk.len()) > 0 {}
                        libc::fcntl(me, libc::F_SETFL, fl);
                    }
                }
                let payload = tag.to_le_bytes();
                drop(std::thread::spawn(move || {
                    std::thread::sleep(Duration::from_millis(300));
                    unsafe {
                        if writing {
                            // drain until the 8 payload bytes at the very end have arrived
                            let mut sink = vec![0u8; 1 << 20];
                            let t = Instant::now();
                            libc::fcntl(peer, libc::F_SETFL, libc::fcntl(peer, libc::F_GETFL) | libc::O_NONBLOCK);
                            while t.elapsed() < Duration::from_secs(2) {
                                if libc::read(peer, sink.as_mut_ptr().cast(), sink.len()) <= 0 {
                                    std::thread::sleep(Duration::from_millis(2));
                                }
                            }
                        } else {
                            libc::write(peer, payload.as_ptr().cast(), 8);
                        }
                    }
                }));
                let mut buf = payload;
                let mut iov = libc::iovec { iov_base: buf.as_mut_ptr().cast(), iov_len: 8 };
                let mut mh: libc::msghdr = unsafe { std::mem::zeroed() };
                mh.msg_iov = &raw mut iov;
                mh.msg_iovlen = 1;
                oc::set_errno(0);
                let t = Instant::now();
                let r = match call {
                    "send" => oc::send(None, me, buf.as_ptr().cast(), 8, 0),
                    "sendmsg" => oc::sendmsg(None, me, &raw const mh, 0),
                    "write" => oc::write(None, me, buf.as_ptr().cast(), 8),
                    "writev" => oc::writev(None, me, &raw const iov, 1),
                    "recv" => oc::recv(None, me, buf.as_mut_ptr().cast(), 8, 0),
                    "recvmsg" => oc::recvmsg(None, me, &raw mut mh, 0),
                    "read" => oc::read(None, me, buf.as_mut_ptr().cast(), 8),
                    _ => oc::readv(None, me, &raw const iov, 1),
                };
                let e = errno();
                let ms = t.elapsed().as_millis();
                if r != 8 || (!writing && buf != payload) {
                    problem(format!("op {k} {call} that has to wait 300 ms for its peer returned {r} errno {e} after {ms} ms (expected 8); the socket's {} is 100 ms, its {} is unlimited",
                        if writing { "receive timeout" } else { "send timeout" }, if writing { "send timeout" } else { "receive timeout" }));
                    // the abandoned request is still in flight and this caller's wait slot is taken: stop here
                    done_ops.fetch_add(ops - k, Ordering::SeqCst);
                    return;
                }
                // the descriptors stay open: the drainer thread may still be reading
                let _ = (me, peer);
            }
            10 => {
                // sendto over TCP (submitted as a zero-copy send, whose buffer-release notification is a second completion with the same
                // user data), followed at once by a receive on another socket that has to wait 50 ms for its data: the receive must get
                // its own 8 bytes, and the TCP peer must get the tag
                let (tx, rx) = tcp_pair();
                let msg = tag.to_le_bytes();
                oc::set_errno(0);
                let s = oc::sendto(None, tx, msg.as_ptr().cast(), 8, 0, std::ptr::null(), 0);
                let se = errno();
                let peer = sv[0];
                let late = tag ^ 0xAAAA;
                drop(std::thread::spawn(move || {
                    std::thread::sleep(Duration::from_millis(50));
                    unsafe { libc::write(peer, late.to_le_bytes().as_ptr().cast(), 8) }
                }));
                oc::set_errno(0);
                let mut back = [0u8; 8];
                let r = oc::recv(None, sv[1], back.as_mut_ptr().cast(), 8, 0);
                let re = errno();
                let mut got = [0u8; 8];
                let n = unsafe {
                    libc::fcntl(rx, libc::F_SETFL, libc::fcntl(rx, libc::F_GETFL) | libc::O_NONBLOCK);
                    std::thread::sleep(Duration::from_millis(5));
                    libc::read(rx, got.as_mut_ptr().cast(), 8)
                };
                unsafe {
                    libc::close(tx);
                    libc::close(rx);
                }
                if s != 8 || n != 8 || got != msg {
                    problem(format!("op {k} sendto over TCP returned {s} errno {se}; the peer read {n} bytes {got:x?}, expected 8 bytes {msg:x?}"));
                } else if r != 8 || back != late.to_le_bytes() {
                    problem(format!("op {k} recv issued right after a sendto over TCP returned {r} errno {re} with {back:x?}, expected its own 8 bytes {:x?} that arrive 50 ms later (the second completion of the zero-copy send filled in this call)", late.to_le_bytes()));
                    if r != 8 {
                        // the late data is still to come: take it out so that later operations of this caller find the socket empty
                        std::thread::sleep(Duration::from_millis(80));
                        let mut junk = [0u8; 8];
                        unsafe { libc::recv(sv[1], junk.as_mut_ptr().cast(), 8, libc::MSG_DONTWAIT) };
                    }
                }
            }
            11 => {
                // vectored positional file I/O: two unique pieces written at a unique offset, read back into two other buffers
                let off = (4096 + k * 64) as libc::off_t;
                let a: Vec<u8> = (0..20).map(|i| (tag.wrapping_mul(17).wrapping_add(i) % 249) as u8).collect();
                let b: Vec<u8> = (0..28).map(|i| (tag.wrapping_mul(29).wrapping_add(i) % 247) as u8).collect();
                let wv = [libc::iovec { iov_base: a.as_ptr() as *mut _, iov_len: 20 }, libc::iovec { iov_base: b.as_ptr() as *mut _, iov_len: 28 }];
                let w = oc::pwritev(None, fd, wv.as_ptr(), 2, off);
                let (mut ra, mut rb) = (vec![0u8; 20], vec![0u8; 28]);
                let rv = [libc::iovec { iov_base: ra.as_mut_ptr().cast(), iov_len: 20 }, libc::iovec { iov_base: rb.as_mut_ptr().cast(), iov_len: 28 }];
                let r = oc::preadv(None, fd, rv.as_ptr(), 2, off);
                if w != 48 || r != 48 || ra != a || rb != b {
                    problem(format!("op {k} pwritev/preadv returned {w}/{r} errno {}, data {}", errno(), if ra == a && rb == b { "ok" } else { "belongs to somebody else / wrong" }));
                }
            }
            12 => {
                // stream I/O without offsets on a socket pair of its own: write, writev, read, readv, half-close, read at end of stream,
                // fsync of the data file, close, close of a descriptor number that was never open
                // (regular files are not used here: the io_uring path reads and writes them at offset 0 whatever the file position is -
                // a difference from read(2)/write(2) that is outside this property)
                let mut q = [0; 2];
                assert_eq!(0, unsafe { libc::socketpair(libc::AF_UNIX, libc::SOCK_STREAM, 0, q.as_mut_ptr()) });
                let a: Vec<u8> = (0..24).map(|i| (tag.wrapping_mul(13).wrapping_add(i) % 241) as u8).collect();
                let b: Vec<u8> = (0..16).map(|i| (tag.wrapping_mul(7).wrapping_add(i) % 239) as u8).collect();
                let w1 = oc::write(None, q[0], a.as_ptr().cast(), 24);
                let wv = [libc::iovec { iov_base: b.as_ptr() as *mut _, iov_len: 16 }];
                let w2 = oc::writev(None, q[0], wv.as_ptr(), 1);
                let (mut ra, mut rb) = (vec![0u8; 24], vec![0u8; 16]);
                let r1 = oc::read(None, q[1], ra.as_mut_ptr().cast(), 24);
                let rv = [libc::iovec { iov_base: rb.as_mut_ptr().cast(), iov_len: 16 }];
                let r2 = oc::readv(None, q[1], rv.as_ptr(), 1);
                let sh = oc::shutdown(None, q[0], libc::SHUT_WR);
                let mut z = [0u8; 4];
                let r3 = oc::read(None, q[1], z.as_mut_ptr().cast(), 4);
                let f = oc::fsync(None, fd);
                if w1 != 24 || w2 != 16 || r1 != 24 || r2 != 16 || sh != 0 || r3 != 0 || f != 0 || ra != a || rb != b {
                    problem(format!("op {k} write/writev/read/readv/shutdown/read-at-end/fsync returned {w1}/{w2}/{r1}/{r2}/{sh}/{r3}/{f} errno {}, data {}", errno(), if ra == a && rb == b { "ok" } else { "belongs to somebody else / wrong" }));
                }
                let c0 = oc::close(None, q[0]);
                let c1 = oc::close(None, q[1]);
                oc::set_errno(0);
                let c2 = oc::close(None, 1_000_000 + id as libc::c_int);
                let e2 = errno();
                if c0 != 0 || c1 != 0 || c2 != -1 || e2 != libc::EBADF {
                    problem(format!("op {k} close returned {c0}/{c1}, closing a descriptor number that was never open returned {c2} errno {e2} (expected 0/0, then -1/EBADF)"));
                }
            }
            13 => {
                // renameat of an own file (then the new name exists and the old one does not), renameat of a missing file -> ENOENT
                let from = format!("{dir}/r{id}-{k}\0");
                let to = format!("{dir}/t{id}-{k}\0");
                unsafe { libc::close(libc::open(from.as_ptr().cast(), libc::O_RDWR | libc::O_CREAT, 0o600)) };
                let r = oc::renameat(None, libc::AT_FDCWD, from.as_ptr().cast(), libc::AT_FDCWD, to.as_ptr().cast());
                let moved = unsafe { libc::access(to.as_ptr().cast(), libc::F_OK) == 0 && libc::access(from.as_ptr().cast(), libc::F_OK) != 0 };
                oc::set_errno(0);
                let r2 = oc::renameat(None, libc::AT_FDCWD, from.as_ptr().cast(), libc::AT_FDCWD, to.as_ptr().cast());
                let e2 = errno();
                if r != 0 || !moved || r2 != -1 || e2 != libc::ENOENT {
                    problem(format!("op {k} renameat returned {r} (file moved: {moved}); renaming the now missing source returned {r2} errno {e2} (expected 0, then -1/ENOENT)"));
                }
            }
            14 => {
                // a connection of its own through io_uring: socket, connect to the caller's listener, accept, send/recv a tag, half-close, EOF
                let lpath = format!("{dir}/l{id}-{k}");
                let l = unsafe { libc::socket(libc::AF_UNIX, libc::SOCK_STREAM, 0) };
                let mut addr: libc::sockaddr_un = unsafe { std::mem::zeroed() };
                addr.sun_family = libc::AF_UNIX as libc::sa_family_t;
                for (i, b) in lpath.bytes().enumerate() {
                    addr.sun_path[i] = b as libc::c_char;
                }
                let alen = std::mem::size_of::<libc::sockaddr_un>() as libc::socklen_t;
                unsafe {
                    assert_eq!(0, libc::bind(l, (&raw const addr).cast(), alen));
                    assert_eq!(0, libc::listen(l, 4));
                }
                let c = oc::socket(None, libc::AF_UNIX, libc::SOCK_STREAM, 0);
                let cr = oc::connect(None, c, (&raw const addr).cast(), alen);
                let a = if k % 2 == 0 { oc::accept(None, l, std::ptr::null_mut(), std::ptr::null_mut()) } else { oc::accept4(None, l, std::ptr::null_mut(), std::ptr::null_mut(), libc::SOCK_CLOEXEC) };
                let msg = tag.to_le_bytes();
                let s = oc::send(None, c, msg.as_ptr().cast(), 8, 0);
                let mut back = [0u8; 8];
                let r = oc::recv(None, a, back.as_mut_ptr().cast(), 8, 0);
                let sh = oc::shutdown(None, c, libc::SHUT_WR);
                let mut z = [0u8; 4];
                let eof = oc::recv(None, a, z.as_mut_ptr().cast(), 4, 0);
                if c < 0 || cr != 0 || a < 0 || a == c || s != 8 || r != 8 || back != msg || sh != 0 || eof != 0 {
                    problem(format!("op {k} socket/connect/accept/send/recv/shutdown/recv-at-EOF returned {c}/{cr}/{a}/{s}/{r}/{sh}/{eof} errno {}, payload {back:x?} expected {msg:x?}", errno()));
                }
                let _ = oc::close(None, c);
                let _ = oc::close(None, a);
                unsafe { libc::close(l) };
            }
            15 => {
                // a receive that leaves data behind: 64 bytes are queued on a TCP connection and read 16 at a time
                // (the kernel marks such completions with extra flags; they are results all the same)
                let (tx, rx) = tcp_pair();
                let data: Vec<u8> = (0..64).map(|i| (tag.wrapping_mul(11).wrapping_add(i) % 233) as u8).collect();
                let w = unsafe { libc::write(tx, data.as_ptr().cast(), 64) };
                std::thread::sleep(Duration::from_millis(2));
                let mut got = vec![];
                let mut rets = vec![];
                for _ in 0..4 {
                    let mut b = [0u8; 16];
                    let r = oc::recv(None, rx, b.as_mut_ptr().cast(), 16, 0);
                    rets.push(r);
                    if r > 0 {
                        got.extend_from_slice(&b[..r as usize]);
                    } else {
                        break;
                    }
                }
                unsafe {
                    libc::close(tx);
                    libc::close(rx);
                }
                if w != 64 || got != data {
                    problem(format!("op {k} recv of 64 queued bytes in pieces of 16 returned {rets:?} errno {}, data {}", errno(), if got == data { "ok" } else { "incomplete / wrong" }));
                }
            }
            6 => {
                // negative completion compared with what the native call answers: mkdirat below /sys
                let d = format!("/sys/verif-c27-{id}-{k}\0");
                oc::set_errno(0);
                let nr = unsafe { libc::mkdirat(libc::AT_FDCWD, d.as_ptr().cast(), 0o700) };
                let ne = errno();
                oc::set_errno(0);
                let r = oc::mkdirat(None, libc::AT_FDCWD, d.as_ptr().cast(), 0o700);
                let e = errno();
                if nr == -1 && (r != -1 || e != ne) {
                    problem(format!("op {k} mkdirat(/sys/..) returned {r} errno {e}, expected -1/errno {ne} like the native call"));
                }
            }
            7 => {
                // negative completion: write to a memfd sealed against writes (EPERM)
                let r = unsafe {
                    let m = libc::memfd_create(c"verif-c27".as_ptr(), libc::MFD_ALLOW_SEALING);
                    let _ = libc::fcntl(m, libc::F_ADD_SEALS, libc::F_SEAL_WRITE | libc::F_SEAL_GROW | libc::F_SEAL_SHRINK);
                    let b = [1u8; 4];
                    oc::set_errno(0);
                    let nr = libc::pwrite(m, b.as_ptr().cast(), 4, 0);
                    let ne = errno();
                    oc::set_errno(0);
                    let r = oc::pwrite(None, m, b.as_ptr().cast(), 4, 0);
                    let e = errno();
                    libc::close(m);
                    (nr, ne, r, e)
                };
                if r.0 == -1 && (r.2 != -1 || r.3 != r.1) {
                    problem(format!("op {k} pwrite(sealed memfd) returned {} errno {}, expected -1/errno {} like the native call", r.2, r.3, r.1));
                }
            }
            _ => {
                // negative completion: mkdirat of an existing directory
                oc::set_errno(0);
                let d = format!("{dir}\0");
                let r = oc::mkdirat(None, libc::AT_FDCWD, d.as_ptr().cast(), 0o700);
                let e = errno();
                if r != -1 || e != libc::EEXIST {
                    problem(format!("op {k} mkdirat(existing) returned {r} errno {e}, expected -1/EEXIST"));
                }
            }
        }
        done_ops.fetch_add(1, Ordering::SeqCst);
    }
    unsafe {
        libc::close(fd);
        libc::close(rofd);
        libc::close(sv[0]);
        libc::close(sv[1]);
    }
}

fn c27(seed: u64, case: u64, out: &Out) {
    let mut rng = Rng::for_case(seed ^ 0xC27, case);
    let coroutines = *rng.pick(&[1usize, 2, 4, 8, 16, 32]);
    let forced = case % 4 == 1;
    let timeout_first = case % 6 == 4;
    let threads = if case % 3 == 2 || forced { 1 } else { 0 };
    let ops = rng.usize(8, 40);
    out.begin(case, jobj! {"coroutine_callers" => coroutines, "plain_thread_callers" => threads, "ops_per_caller" => ops,
        "first_call_of_caller_0" => if timeout_first {"recv on an empty socket with SO_RCVTIMEO = 20 ms (runs into its timeout)"} else {"ordinary"},
        "forced_schedule" => if forced {"the plain-thread caller is held for 80 ms between submitting one of its requests and registering for the completion (uring:after_submit pause hook)"} else {"none"}});
    let mut cfg = Config::single();
    let _ = cfg.set_max_size(coroutines + 8).set_hook(false);
    EventLoops::init(&cfg);
    let dir = format!("/tmp/verif-c27-{}-{}", std::process::id(), case);
    std::fs::create_dir_all(&dir).expect("mkdir");
    if forced {
        PAUSE_TARGET.store(rng.range(1, ops as u64 / 2), Ordering::SeqCst);
    }
    open_coroutine_core::verif::set_pauser(Some(pauser));
    let log: Arc<Mutex<Vec<String>>> = Arc::default();
    let done_callers = Arc::new(AtomicUsize::new(0));
    let done_ops = Arc::new(AtomicUsize::new(0));
    let mut hs = vec![];
    for c in 0..coroutines {
        let (log, dc, dops, dir) = (log.clone(), done_callers.clone(), done_ops.clone(), dir.clone());
        hs.push(EventLoops::submit_task(None, move |_| {
            caller(c, ops, seed ^ case, &dir, &log, &dops, timeout_first && c == 0);
            dc.fetch_add(1, Ordering::SeqCst);
            None
        }, None, None));
    }
    let mut ths = vec![];
    for t in 0..threads {
        let (log, dc, dops, dir) = (log.clone(), done_callers.clone(), done_ops.clone(), dir.clone());
        ths.push(std::thread::spawn(move || {
            caller(1000 + t, ops, seed ^ case, &dir, &log, &dops, false);
            dc.fetch_add(1, Ordering::SeqCst);
        }));
    }
    let total = coroutines + threads;
    let t0 = Instant::now();
    let mut last = (0usize, Instant::now());
    loop {
        let d = done_ops.load(Ordering::SeqCst);
        if d != last.0 {
            last = (d, Instant::now());
        }
        if done_callers.load(Ordering::SeqCst) >= total {
            break;
        }
        // a call still blocked 5 s after the last completion of anybody is a lost completion
        if last.1.elapsed() > Duration::from_secs(5) || t0.elapsed() > Duration::from_secs(60) {
            break;
        }
        std::thread::sleep(Duration::from_millis(5));
    }
    let finished = done_callers.load(Ordering::SeqCst);
    let problems = log.lock().unwrap().clone();
    let paused = PAUSED.load(Ordering::SeqCst);
    let obs = jobj! {"callers_finished" => finished, "callers" => total, "ops_completed" => done_ops.load(Ordering::SeqCst), "ops_expected" => total * ops, "problems" => problems.len(),
        "calls_held_in_submit_register_window" => paused, "calls_that_ran_into_their_timeout" => TIMED_OUT_CALLS.load(Ordering::SeqCst), "callers_starved" => STARVED.load(Ordering::SeqCst), "wall_ms" => t0.elapsed().as_millis() as u64};
    let _ = std::fs::remove_dir_all(&dir);
    let fp = format!("{coroutines}|{threads}|{ops}|{forced}|{timeout_first}");
    std::mem::forget(hs);
    std::mem::forget(ths);
    if let Some(p) = problems.first() {
        let kind = if p.contains("somebody else") { "call-got-anothers-data" } else if p.contains("expected -1/") || p.contains("like the native call") { "negative-completion-misreported" } else { "call-returned-wrong-result" };
        out.end(case, Verdict::Violated, &format!("C27/{kind}"), true, &fp, obs, p);
    } else if finished < total {
        let ctx = if forced && paused > 0 { "completion-arrived-before-the-caller-registered" } else if threads > 0 { "with-plain-thread-caller" } else { "coroutine-callers" };
        out.end(case, Verdict::Violated, &format!("C27/completion-lost-call-never-returns/{ctx}"), true, &fp, obs, &format!("{} of {total} callers still blocked 5 s after the last completion anybody received", total - finished));
    } else if STARVED.load(Ordering::SeqCst) > 0 {
        out.end(case, Verdict::Inconclusive, "loop-thread-starved-past-a-300ms-send-timeout", false, &fp, obs, "");
    } else if forced && paused == 0 {
        out.end(case, Verdict::Inconclusive, "pause-hook-not-reached", false, &fp, obs, "");
    } else {
        out.end(case, Verdict::Held, "", true, &fp, obs, "");
    }
}

fn main() {
    let args = Args::parse();
    let out = Out::open(&args);
    wl_core::quiet_panics();
    // the reason of an abort is part of the verdict: one line per panic
    std::panic::set_hook(Box::new(|i| eprintln!("[panic] {}", i.to_string().replace('\n', " "))));
    let seed = args.u64("seed", 1);
    let (a, _) = case_range(&args, 1);
    match args.pos.first().map(String::as_str) {
        Some("c27") => c27(seed, a, &out),
        other => {
            eprintln!("unknown subcommand {other:?}");
            std::process::exit(64);
        }
    }
    let _ = J::Null;
    std::process::exit(0);
}
