//! C22 — preemption (build with --features preemptive). One case per process.
//! usage: preempt c22 --seed S --from I --to I+1
#![allow(clippy::too_many_lines)]
use mon::{case_range, jobj, Args, Out, Rng, Verdict, J};
use open_coroutine_core::common::constants::{CoroutineState, SyscallName, SyscallState};
use open_coroutine_core::coroutine::listener::Listener;
use open_coroutine_core::coroutine::local::CoroutineLocal;
use open_coroutine_core::scheduler::{SchedulableCoroutine, SchedulableSuspender, Scheduler};
use std::sync::atomic::{AtomicBool, AtomicU64, AtomicUsize, Ordering};
use std::sync::{Arc, Mutex};
use std::time::{Duration, Instant};
use wl_core::thread_cpu_ns;

type St = CoroutineState<(), Option<usize>>;

#[derive(Debug, Default, Clone)]
struct Watch {
    /// (old class, new class) of every transition
    log: Arc<Mutex<Vec<(String, String)>>>,
}

fn cls(s: &St) -> String {
    match s {
        CoroutineState::Ready => "Ready".into(),
        CoroutineState::Running => "Running".into(),
        CoroutineState::Suspend(..) => "Suspend".into(),
        CoroutineState::Syscall(_, n, _) => format!("Syscall({n})"),
        CoroutineState::Cancelled => "Cancelled".into(),
        CoroutineState::Complete(_) => "Complete".into(),
        CoroutineState::Error(_) => "Error".into(),
    }
}

impl Listener<(), Option<usize>> for Watch {
    fn on_state_changed(&self, _: &CoroutineLocal, old: St, new: St) {
        self.log.lock().unwrap().push((cls(&old), cls(&new)));
    }
}

/// A computation whose result depends on every step: integers and floating point (SSE registers must survive preemption).
#[inline(never)]
fn checksum(iter: u64, salt: u64) -> (u64, u64) {
    let mut h: u64 = 0xcbf2_9ce4_8422_2325 ^ salt;
    let mut f = [1.000_000_1f64, 0.999_999_9, 1.5, 0.25];
    for i in 0..iter {
        h = (h ^ i).wrapping_mul(0x0000_0100_0000_01B3).rotate_left(7);
        f[0] = f[0] * 1.000_000_01 + (i & 7) as f64 * 1e-9;
        f[1] = f[1] * 0.999_999_99 + f[0] * 1e-12;
        f[2] = (f[2] + f[1]).sqrt() + 1.0;
        f[3] = f[3] * 0.5 + f[2] * 0.25;
        if i % 1024 == 0 {
            std::hint::black_box(&mut f);
        }
    }
    (h, f[0].to_bits() ^ f[1].to_bits().rotate_left(13) ^ f[2].to_bits().rotate_left(29) ^ f[3].to_bits().rotate_left(47))
}

fn c22(seed: u64, case: u64, out: &Out) {
    let mut rng = Rng::for_case(seed ^ 0xC22, case);
    // 0: chain of busy coroutines released by a sibling; 1: syscall-state coroutine must not be preempted; 2: checksums under preemption; 3: many scheduling threads
    let scenario = case % 4;
    let mut viol: Option<(String, String)> = None;
    let mut obs = J::Null;
    let mut preemptions = 0usize;
    match scenario {
        0 => {
            let busy = rng.usize(1, 3);
            // what a busy coroutine does before it starts to spin: the slice it was granted must not shield what comes after
            let prelude = (case / 4) % 4;
            // a second thread that keeps starting and finishing short coroutines of its own (resumed directly, no scheduler, so nothing
            // can migrate): what it does to the monitor's bookkeeping must not cost the busy coroutine on the first thread its preemption
            let helper = (case / 16) % 2 == 1;
            out.begin(case, jobj! {"scenario" => "busy coroutines on one thread, each spinning until the next one in the chain has finished; the last link is a trivial sibling", "busy_coroutines" => busy,
                "second_thread" => if helper {"runs short coroutines of its own, one after another, while the busy coroutines spin"} else {"none"},
                "before_spinning" => ["nothing", "a short system call (Running -> Syscall -> Running)", "an early cooperative yield", "an early yield and a short system call"][prelude as usize]});
            let w = Watch::default();
            let mut sch = Scheduler::new(format!("c22-{seed}-{case}"), 128 * 1024);
            sch.add_listener(w.clone());
            let flags: Vec<Arc<AtomicBool>> = (0..=busy).map(|_| Arc::new(AtomicBool::new(false))).collect();
            let burned: Arc<Vec<AtomicU64>> = Arc::new((0..busy).map(|_| AtomicU64::new(0)).collect());
            for i in 0..busy {
                let (next, mine, b) = (flags[i + 1].clone(), flags[i].clone(), burned.clone());
                let _ = sch
                    .submit_co(
                        move |sus: &SchedulableSuspender, ()| {
                            if prelude >= 2 {
                                sus.suspend();
                            }
                            if prelude % 2 == 1 {
                                let co = SchedulableCoroutine::current().expect("current");
                                co.syscall((), SyscallName::write, SyscallState::Executing).expect("enter call");
                                co.running().expect("leave call");
                            }
                            // spins without ever yielding until the next coroutine in the chain has run
                            let start = thread_cpu_ns();
                            let mut x = 0u64;
                            while !next.load(Ordering::SeqCst) {
                                x = x.wrapping_mul(6_364_136_223_846_793_005).wrapping_add(1);
                                b[i].store(thread_cpu_ns() - start, Ordering::Relaxed);
                                if thread_cpu_ns() - start > 3_000_000_000 {
                                    break; // give up: 3 s of CPU without being preempted
                                }
                            }
                            mine.store(true, Ordering::SeqCst);
                            Some(i + (x & 1) as usize * 0)
                        },
                        None,
                        None,
                    )
                    .expect("submit");
            }
            let last = flags[busy].clone();
            let _ = sch
                .submit_co(
                    move |_, ()| {
                        last.store(true, Ordering::SeqCst);
                        Some(99)
                    },
                    None,
                    None,
                )
                .expect("submit");
            let helper_stop = Arc::new(AtomicBool::new(false));
            let helper_ran = Arc::new(AtomicUsize::new(0));
            let helper_thread = helper.then(|| {
                let (stop, ran, b) = (helper_stop.clone(), helper_ran.clone(), burned.clone());
                std::thread::spawn(move || {
                    // wait until a busy coroutine is spinning on the other thread
                    let t = Instant::now();
                    while b.iter().all(|x| x.load(Ordering::Relaxed) == 0) && t.elapsed() < Duration::from_secs(3) {
                        std::thread::sleep(Duration::from_micros(200));
                    }
                    while !stop.load(Ordering::SeqCst) && t.elapsed() < Duration::from_secs(10) {
                        let mut co: SchedulableCoroutine = open_coroutine_core::coroutine::Coroutine::new(None, |_, ()| Some(1usize), None, None).expect("new");
                        let _ = co.resume();
                        ran.fetch_add(1, Ordering::SeqCst);
                        std::thread::sleep(Duration::from_micros(500));
                    }
                })
            });
            let t0 = Instant::now();
            let mut results: std::collections::HashMap<u64, Result<Option<usize>, String>> = std::collections::HashMap::new();
            while results.len() < busy + 1 && t0.elapsed() < Duration::from_secs(12) {
                match sch.try_timed_schedule(Duration::from_millis(200)) {
                    Ok((_, r)) => results.extend(r.into_iter().map(|(k, v)| (k, v.map_err(str::to_string)))),
                    Err(e) => {
                        viol = Some(("scheduling-failed".into(), e.to_string()));
                        break;
                    }
                }
            }
            helper_stop.store(true, Ordering::SeqCst);
            if let Some(h) = helper_thread {
                let _ = h.join();
            }
            let log = w.log.lock().unwrap().clone();
            preemptions = log.iter().filter(|(o, n)| o == "Running" && n == "Suspend").count();
            let worst = burned.iter().map(|b| b.load(Ordering::Relaxed)).max().unwrap_or(0);
            obs = jobj! {"results" => results.len(), "preemptions_observed" => preemptions, "worst_cpu_burned_without_the_chain_advancing_ms" => worst / 1_000_000, "wall_ms" => t0.elapsed().as_millis() as u64,
                "coroutines_run_by_the_second_thread" => helper_ran.load(Ordering::SeqCst)};
            if viol.is_none() && results.len() < busy + 1 {
                viol = Some(("busy-coroutine-never-preempted".into(), format!("{} of {} coroutines finished in 12 s; a busy coroutine burned {} ms of CPU while its sibling waited", results.len(), busy + 1, worst / 1_000_000)));
            } else if viol.is_none() && worst > 500_000_000 * busy as u64 {
                viol = Some(("preemption-too-late".into(), format!("a busy coroutine burned {} ms of CPU before the sibling it waited for got to run (slice is 10 ms)", worst / 1_000_000)));
            } else if viol.is_none() && results.values().any(|r| r.is_err()) {
                viol = Some(("preempted-coroutine-failed".into(), format!("{results:?}")));
            }
            std::mem::forget(sch);
        }
        1 => {
            let ms = rng.range(60, 150);
            // race variant: the coroutine computes in the Running state until about the end of its 10 ms slice and enters the call right then,
            // so that a preemption signal which is already on its way finds it in a Syscall state; 150 rounds with different margins
            let race = (case / 4) % 2 == 1;
            let rounds = if race { 150 } else { 1 };
            let margins_us: Vec<u64> = (0..rounds).map(|_| if race { rng.range(9_800, 11_200) } else { 0 }).collect();
            out.begin(case, jobj! {"scenario" => "a coroutine in a Syscall state spins; it must not be suspended, a ready sibling waits", "spin_cpu_ms" => ms,
                "variant" => if race {"150 rounds: compute 9.8-11.2 ms in the Running state, then enter the call and spin 1 ms there (a preemption signal already on its way must not suspend it inside the call)"} else {"enters the call at once"}});
            let w = Watch::default();
            let mut sch = Scheduler::new(format!("c22-{seed}-{case}"), 128 * 1024);
            sch.add_listener(w.clone());
            let order: Arc<Mutex<Vec<&'static str>>> = Arc::default();
            let o1 = order.clone();
            // race variant: [enter, leave] of every stay inside the call, and the moments at which the sibling ran on this thread
            let in_call: Arc<Mutex<Vec<(u64, u64)>>> = Arc::default();
            let ticks: Arc<Mutex<Vec<u64>>> = Arc::default();
            let main_done = Arc::new(AtomicBool::new(false));
            let (ic, md) = (in_call.clone(), main_done.clone());
            let _ = sch
                .submit_co(
                    move |_, ()| {
                        for m in &margins_us {
                            // Running state: may be preempted here, that is what the slice is for
                            let t = Instant::now();
                            while (t.elapsed().as_micros() as u64) < *m {
                                std::hint::spin_loop();
                            }
                            let co = SchedulableCoroutine::current().expect("current");
                            co.syscall((), SyscallName::write, SyscallState::Executing).expect("enter syscall");
                            let entered = wl_core::mono_ns();
                            let start = thread_cpu_ns();
                            let stay = if race { 1 } else { ms };
                            while thread_cpu_ns() - start < stay * 1_000_000 {
                                std::hint::spin_loop();
                            }
                            if !race {
                                o1.lock().unwrap().push("syscall-coroutine-finished-spinning");
                            }
                            ic.lock().unwrap().push((entered, wl_core::mono_ns()));
                            let co = SchedulableCoroutine::current().expect("current");
                            co.running().expect("leave syscall");
                        }
                        md.store(true, Ordering::SeqCst);
                        Some(1)
                    },
                    None,
                    Some(0),
                )
                .expect("submit");
            let o2 = order.clone();
            let (tk, md2) = (ticks.clone(), main_done.clone());
            let _ = sch
                .submit_co(
                    move |sus: &SchedulableSuspender, ()| {
                        o2.lock().unwrap().push("sibling-ran");
                        if race {
                            // keeps yielding: every time it gets the thread it leaves a time stamp
                            let t = Instant::now();
                            while !md2.load(Ordering::SeqCst) && t.elapsed() < Duration::from_secs(9) {
                                tk.lock().unwrap().push(wl_core::mono_ns());
                                sus.suspend();
                            }
                        }
                        Some(2)
                    },
                    None,
                    Some(0),
                )
                .expect("submit");
            let t0 = Instant::now();
            let mut results: std::collections::HashMap<u64, Result<Option<usize>, String>> = std::collections::HashMap::new();
            while results.len() < 2 && t0.elapsed() < Duration::from_secs(if race { 12 } else { 8 }) {
                if let Ok((_, r)) = sch.try_timed_schedule(Duration::from_millis(100)) {
                    results.extend(r.into_iter().map(|(k, v)| (k, v.map_err(str::to_string))));
                }
            }
            let log = w.log.lock().unwrap().clone();
            let susp_in_sys = log.iter().filter(|(o, n)| o.starts_with("Syscall") && n == "Suspend").count();
            let ord = order.lock().unwrap().clone();
            preemptions = 1; // this scenario is about the absence of one
            obs = jobj! {"order" => ord.iter().map(|s| (*s).to_string()).collect::<Vec<_>>(), "transitions" => log.len(), "results" => results.len(),
                "preemptions_in_the_running_state" => log.iter().filter(|(o, n)| o == "Running" && n == "Suspend").count(), "suspensions_inside_the_call" => susp_in_sys};
            let stays = in_call.lock().unwrap().clone();
            let tks = ticks.lock().unwrap().clone();
            let intruded = stays.iter().filter(|(a, b)| tks.iter().any(|t| t > a && t < b)).count();
            if let J::O(ref mut o) = obs {
                o.push(("stays_inside_the_call".into(), J::U(stays.len() as u64)));
                o.push(("sibling_time_stamps".into(), J::U(tks.len() as u64)));
                o.push(("stays_during_which_the_sibling_ran".into(), J::U(intruded as u64)));
            }
            if intruded > 0 {
                viol = Some(("coroutine-preempted-in-syscall-state".into(), format!("the sibling got the thread during {intruded} of {} stays of the coroutine inside the call (single scheduling thread)", stays.len())));
            } else if race && stays.len() < rounds {
                viol = Some(("coroutine-preempted-in-syscall-state/never-resumed".into(), format!("the coroutine completed {} of {rounds} stays inside the call and was never resumed (a coroutine suspended inside a call has nobody to wake it)", stays.len())));
            } else if (!race && ord.first() != Some(&"syscall-coroutine-finished-spinning")) || susp_in_sys > 0 {
                viol = Some(("coroutine-preempted-in-syscall-state".into(), format!("order {ord:?}, Syscall->Suspend transitions {susp_in_sys}")));
            } else if results.len() < 2 {
                viol = Some(("coroutines-did-not-finish".into(), format!("{results:?}")));
            }
            std::mem::forget(sch);
        }
        2 => {
            let n = rng.usize(1, 4);
            let iters: Vec<u64> = (0..n).map(|_| rng.range(3_000_000, 12_000_000)).collect();
            out.begin(case, jobj! {"scenario" => "integer + floating point checksums computed inside coroutines that get preempted; results must equal a plain-thread reference", "coroutines" => n, "iterations" => iters.iter().map(|i| *i as i64).collect::<Vec<_>>()});
            let refs: Vec<(u64, u64)> = {
                let it = iters.clone();
                std::thread::spawn(move || it.iter().enumerate().map(|(i, k)| checksum(*k, i as u64)).collect()).join().expect("reference thread")
            };
            let w = Watch::default();
            let mut sch = Scheduler::new(format!("c22-{seed}-{case}"), 128 * 1024);
            sch.add_listener(w.clone());
            let got: Arc<Mutex<Vec<Option<(u64, u64)>>>> = Arc::new(Mutex::new(vec![None; n]));
            for (i, k) in iters.iter().enumerate() {
                let (g, k) = (got.clone(), *k);
                let _ = sch
                    .submit_co(
                        move |_, ()| {
                            let r = checksum(k, i as u64);
                            g.lock().unwrap()[i] = Some(r);
                            Some(i)
                        },
                        None,
                        None,
                    )
                    .expect("submit");
            }
            let t0 = Instant::now();
            let mut results: std::collections::HashMap<u64, Result<Option<usize>, String>> = std::collections::HashMap::new();
            while results.len() < n && t0.elapsed() < Duration::from_secs(20) {
                if let Ok((_, r)) = sch.try_timed_schedule(Duration::from_millis(200)) {
                    results.extend(r.into_iter().map(|(k, v)| (k, v.map_err(str::to_string))));
                }
            }
            let log = w.log.lock().unwrap().clone();
            preemptions = log.iter().filter(|(o, n)| o == "Running" && n == "Suspend").count();
            let g = got.lock().unwrap().clone();
            obs = jobj! {"preemptions_observed" => preemptions, "results" => results.len(), "wall_ms" => t0.elapsed().as_millis() as u64};
            if results.len() < n {
                viol = Some(("computing-coroutines-did-not-finish".into(), format!("{} of {n}", results.len())));
            } else if results.values().any(|r| r.is_err()) {
                viol = Some(("preempted-coroutine-failed".into(), format!("{results:?}")));
            } else {
                for i in 0..n {
                    if g[i] != Some(refs[i]) {
                        viol = Some(("preemption-changed-a-computed-result".into(), format!("coroutine {i}: got {:x?}, reference {:x?}", g[i], refs[i])));
                    }
                }
            }
            std::mem::forget(sch);
        }
        _ => {
            let threads = *rng.pick(&[4usize, 8, 12]);
            let secs = 3u64;
            out.begin(case, jobj! {"scenario" => "many scheduling threads, each with busy and yielding coroutines, for a few seconds: the process must survive and every result must be right", "scheduling_threads" => threads, "seconds" => secs});
            let bad = Arc::new(AtomicUsize::new(0));
            let total_pre = Arc::new(AtomicUsize::new(0));
            let done = Arc::new(AtomicUsize::new(0));
            let mut hs = vec![];
            for t in 0..threads {
                let (bad, total_pre, done) = (bad.clone(), total_pre.clone(), done.clone());
                hs.push(std::thread::spawn(move || {
                    let w = Watch::default();
                    let mut sch = Scheduler::new(format!("c22-mt-{seed}-{case}-{t}"), 128 * 1024);
                    sch.add_listener(w.clone());
                    let t0 = Instant::now();
                    let mut round = 0u64;
                    while t0.elapsed() < Duration::from_secs(secs) {
                        round += 1;
                        let want = checksum(400_000, round);
                        let got = Arc::new(Mutex::new(None));
                        let g = got.clone();
                        let _ = sch.submit_co(move |_, ()| {
                            *g.lock().unwrap() = Some(checksum(400_000, round));
                            Some(1)
                        }, None, None);
                        let _ = sch.submit_co(|s: &SchedulableSuspender, ()| {
                            for _ in 0..20 {
                                s.suspend();
                            }
                            Some(2)
                        }, None, None);
                        let mut n = 0;
                        let t1 = Instant::now();
                        while n < 2 && t1.elapsed() < Duration::from_secs(5) {
                            if let Ok((_, r)) = sch.try_timed_schedule(Duration::from_millis(50)) {
                                n += r.len();
                                if r.values().any(|x| x.is_err()) {
                                    bad.fetch_add(1, Ordering::SeqCst);
                                }
                            }
                        }
                        if n < 2 || *got.lock().unwrap() != Some(want) {
                            bad.fetch_add(1, Ordering::SeqCst);
                        }
                        done.fetch_add(1, Ordering::SeqCst);
                    }
                    total_pre.fetch_add(w.log.lock().unwrap().iter().filter(|(o, n)| o == "Running" && n == "Suspend").count(), Ordering::SeqCst);
                    std::mem::forget(sch);
                }));
            }
            let mut panicked = 0;
            for h in hs {
                if h.join().is_err() {
                    panicked += 1;
                }
            }
            preemptions = total_pre.load(Ordering::SeqCst);
            obs = jobj! {"rounds_completed" => done.load(Ordering::SeqCst), "wrong_or_missing_results" => bad.load(Ordering::SeqCst), "threads_that_panicked" => panicked, "suspends_observed" => preemptions};
            if panicked > 0 {
                viol = Some(("scheduling-thread-panicked".into(), format!("{panicked} of {threads}")));
            } else if bad.load(Ordering::SeqCst) > 0 {
                viol = Some(("wrong-result-with-many-scheduling-threads".into(), format!("{} rounds", bad.load(Ordering::SeqCst))));
            }
        }
    }
    let fp = format!("{scenario}|{}", case / 4 % 8);
    match viol {
        Some((k, d)) => out.end(case, Verdict::Violated, &format!("C22/{k}"), true, &fp, obs, &d),
        None if preemptions == 0 => out.end(case, Verdict::Inconclusive, "no-preemption-observed", false, &fp, obs, "the workload finished without a single preemption"),
        None => out.end(case, Verdict::Held, "", true, &fp, obs, ""),
    }
}

fn main() {
    let args = Args::parse();
    let out = Out::open(&args);
    let seed = args.u64("seed", 1);
    let (a, _) = case_range(&args, 1);
    match args.pos.first().map(String::as_str) {
        Some("c22") => c22(seed, a, &out),
        other => {
            eprintln!("unknown subcommand {other:?}");
            std::process::exit(64);
        }
    }
    std::process::exit(0);
}
