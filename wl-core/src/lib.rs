//! Helpers shared by the wl-core workload binaries.
pub use mon;

pub fn now_ns() -> u64 {
    open_coroutine_core::common::now()
}

/// CLOCK_MONOTONIC in ns.
pub fn mono_ns() -> u64 {
    let mut ts = libc::timespec { tv_sec: 0, tv_nsec: 0 };
    unsafe { libc::clock_gettime(libc::CLOCK_MONOTONIC, &mut ts) };
    ts.tv_sec as u64 * 1_000_000_000 + ts.tv_nsec as u64
}

/// CPU time of the calling thread in ns.
pub fn thread_cpu_ns() -> u64 {
    let mut ts = libc::timespec { tv_sec: 0, tv_nsec: 0 };
    unsafe { libc::clock_gettime(libc::CLOCK_THREAD_CPUTIME_ID, &mut ts) };
    ts.tv_sec as u64 * 1_000_000_000 + ts.tv_nsec as u64
}

/// Silence the default panic message for panics the workloads raise on purpose.
pub fn quiet_panics() {
    start_load_monitor();
    let verbose = std::env::var("VERBOSE_PANICS").is_ok();
    std::panic::set_hook(Box::new(move |info| {
        if verbose {
            eprintln!("[panic] {info}");
        }
    }));
}

/// How late does this machine wake a sleeping thread right now? Five native 1 ms sleeps, worst overshoot in ns.
/// Timing oracles add a multiple of this to their slack, so that a loaded machine cannot raise an alarm while a
/// unit error (10x-1000x) still stands out on an idle one.
pub fn sched_noise_ns() -> u64 {
    let mut worst = 0u64;
    for _ in 0..5 {
        let rq = libc::timespec { tv_sec: 0, tv_nsec: 1_000_000 };
        let t0 = mono_ns();
        unsafe { libc::nanosleep(&rq, std::ptr::null_mut()) };
        worst = worst.max((mono_ns() - t0).saturating_sub(1_000_000));
    }
    worst
}

/// Is this machine starving its threads of CPU right now? Spins for 20 ms of *thread CPU time* and returns
/// wall time / CPU time (about 1.0 on an idle machine, >> 1 when oversubscribed). A lateness that coincides
/// with a factor above 2.5 is reported as inconclusive, never as a violation.
pub fn starvation() -> f64 {
    let (c0, w0) = (thread_cpu_ns(), mono_ns());
    let mut x = 0u64;
    while thread_cpu_ns() - c0 < 20_000_000 {
        for _ in 0..2000 {
            x = x.wrapping_mul(6_364_136_223_846_793_005).wrapping_add(1_442_695_040_888_963_407);
        }
        std::hint::black_box(x);
    }
    let (c, w) = (thread_cpu_ns() - c0, mono_ns() - w0);
    w as f64 / c.max(1) as f64
}

pub fn overloaded() -> bool {
    starvation() > 2.5 || starvation() > 2.5 || load_window(6_000_000_000).2 >= 3
}

static LOAD: std::sync::Mutex<std::collections::VecDeque<(u64, u64, f64)>> = std::sync::Mutex::new(std::collections::VecDeque::new());

/// Background probe of what the machine does to this process *while* a case runs (the point probes above only see the
/// moment after it): every 20 ms one sample of (a) by how much a 20 ms sleep overshoots and (b) wall/CPU time of a 1 ms spin.
/// Started once per workload process; costs about 5 % of one core.
pub fn start_load_monitor() {
    static ONCE: std::sync::Once = std::sync::Once::new();
    ONCE.call_once(|| {
        let _ = std::thread::Builder::new().name("verif-load-monitor".into()).spawn(|| loop {
            let rq = libc::timespec { tv_sec: 0, tv_nsec: 20_000_000 };
            let t0 = mono_ns();
            unsafe { libc::nanosleep(&rq, std::ptr::null_mut()) };
            let overshoot = (mono_ns() - t0).saturating_sub(20_000_000);
            let (c0, w0) = (thread_cpu_ns(), mono_ns());
            let mut x = 0u64;
            while thread_cpu_ns() - c0 < 1_000_000 {
                for _ in 0..500 {
                    x = x.wrapping_mul(6_364_136_223_846_793_005).wrapping_add(1);
                }
                std::hint::black_box(x);
            }
            let ratio = (mono_ns() - w0) as f64 / (thread_cpu_ns() - c0).max(1) as f64;
            let mut l = LOAD.lock().unwrap_or_else(std::sync::PoisonError::into_inner);
            let now = mono_ns();
            l.push_back((now, overshoot, ratio));
            while l.front().is_some_and(|f| now - f.0 > 60_000_000_000) {
                l.pop_front();
            }
        });
    });
}

/// (worst sleep overshoot in ns, worst spin wall/CPU ratio, number of bad samples) over the last `window_ns`;
/// a sample is bad when the sleep overshot by more than 10 ms or the spin got less than a third of a core.
pub fn load_window(window_ns: u64) -> (u64, f64, usize) {
    let l = LOAD.lock().unwrap_or_else(std::sync::PoisonError::into_inner);
    let now = mono_ns();
    let (mut o, mut r, mut bad) = (0u64, 0f64, 0usize);
    for s in l.iter().filter(|s| now - s.0 <= window_ns) {
        o = o.max(s.1);
        r = r.max(s.2);
        if s.1 > 10_000_000 || s.2 > 3.0 {
            bad += 1;
        }
    }
    (o, r, bad)
}
