//! Helpers shared by the wl-core workload binaries.
pub use mon;

pub fn now_ns() -> u64 {
    open_coroutine_core::common::now()
}

/// CLOCK_MONOTONIC in ns.
pub fn mono_ns() -> u64 {
    let mut ts = libc::timespec { tv_sec: 0, tv_nsec: 0 };
    unsafe { libc::clock_gettime(libc::CLOCK_MONOTONIC, &mut ts) };
    ts.tv_sec as u64 * 1_000_000_000 + ts.tv_nsec as u64
}

/// CPU time of the calling thread in ns.
pub fn thread_cpu_ns() -> u64 {
    let mut ts = libc::timespec { tv_sec: 0, tv_nsec: 0 };
    unsafe { libc::clock_gettime(libc::CLOCK_THREAD_CPUTIME_ID, &mut ts) };
    ts.tv_sec as u64 * 1_000_000_000 + ts.tv_nsec as u64
}

/// Silence the default panic message for panics the workloads raise on purpose.
pub fn quiet_panics() {
    let verbose = std::env::var("VERBOSE_PANICS").is_ok();
    std::panic::set_hook(Box::new(move |info| {
        if verbose {
            eprintln!("[panic] {info}");
        }
    }));
}
