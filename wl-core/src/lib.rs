//! Helpers shared by the wl-core workload binaries.
pub use mon;

pub fn now_ns() -> u64 {
    open_coroutine_core::common::now()
}

/// CLOCK_MONOTONIC in ns.
pub fn mono_ns() -> u64 {
    let mut ts = libc::timespec { tv_sec: 0, tv_nsec: 0 };
    unsafe { libc::clock_gettime(libc::CLOCK_MONOTONIC, &mut ts) };
    ts.tv_sec as u64 * 1_000_000_000 + ts.tv_nsec as u64
}

/// CPU time of the calling thread in ns.
pub fn thread_cpu_ns() -> u64 {
    let mut ts = libc::timespec { tv_sec: 0, tv_nsec: 0 };
    unsafe { libc::clock_gettime(libc::CLOCK_THREAD_CPUTIME_ID, &mut ts) };
    ts.tv_sec as u64 * 1_000_000_000 + ts.tv_nsec as u64
}

/// Silence the default panic message for panics the workloads raise on purpose.
pub fn quiet_panics() {
    let verbose = std::env::var("VERBOSE_PANICS").is_ok();
    std::panic::set_hook(Box::new(move |info| {
        if verbose {
            eprintln!("[panic] {info}");
        }
    }));
}

/// How late does this machine wake a sleeping thread right now? Five native 1 ms sleeps, worst overshoot in ns.
/// Timing oracles add a multiple of this to their slack, so that a loaded machine cannot raise an alarm while a
/// unit error (10x-1000x) still stands out on an idle one.
pub fn sched_noise_ns() -> u64 {
    let mut worst = 0u64;
    for _ in 0..5 {
        let rq = libc::timespec { tv_sec: 0, tv_nsec: 1_000_000 };
        let t0 = mono_ns();
        unsafe { libc::nanosleep(&rq, std::ptr::null_mut()) };
        worst = worst.max((mono_ns() - t0).saturating_sub(1_000_000));
    }
    worst
}

/// Is this machine starving its threads of CPU right now? Spins for 20 ms of *thread CPU time* and returns
/// wall time / CPU time (about 1.0 on an idle machine, >> 1 when oversubscribed). A lateness that coincides
/// with a factor above 2.5 is reported as inconclusive, never as a violation.
pub fn starvation() -> f64 {
    let (c0, w0) = (thread_cpu_ns(), mono_ns());
    let mut x = 0u64;
    while thread_cpu_ns() - c0 < 20_000_000 {
        for _ in 0..2000 {
            x = x.wrapping_mul(6_364_136_223_846_793_005).wrapping_add(1_442_695_040_888_963_407);
        }
        std::hint::black_box(x);
    }
    let (c, w) = (thread_cpu_ns() - c0, mono_ns() - w0);
    w as f64 / c.max(1) as f64
}

pub fn overloaded() -> bool {
    starvation() > 2.5 || starvation() > 2.5
}
