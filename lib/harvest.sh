#!/bin/bash
# harvest.sh <ID>: copy an agent's deliverables out of its scratch worktree and remove the worktree
id=$1
src=/tmp/mut/$id/_deliver
dst=/verif/seeded_staging/$id${2:+.$2}
if [ -d "$src" ]; then mkdir -p $dst && cp -r $src/* $dst/; fi
git -C /repo worktree remove --force /tmp/mut/$id 2>/dev/null
rm -rf /tmp/mut/$id
ls $dst 2>/dev/null
