#!/usr/bin/env python3
"""keep_seeded.py <staging-id> <seeded-dir-name> <detected_by...>: move a confirmed seeded fault from seeded_staging/ to seeded/.
Refuses unless /tmp/cf/<staging-id>.result (written by lib/confirm_seeded.sh) says: patch applies, demonstration fails with it,
45-test baseline passes with it, demonstration passes without it."""
import json, os, shutil, sys, glob
sid, name, det = sys.argv[1], sys.argv[2], " ".join(sys.argv[3:])
st = f"/verif/seeded_staging/{sid}"
res = json.load(open(f"/tmp/cf/{sid}.result"))
ok = res.get("applies") and res["demo_rc_with_patch"] != 0 and res["suite_rc_with_patch"] == 0 and res["demo_rc_without_patch"] == 0 and res.get("suite_passed") == "45 passed"
if not ok:
    sys.exit(f"not confirmed: {res}")
dst = f"/verif/seeded/{name}"
os.makedirs(dst, exist_ok=True)
patch = os.path.join(st, res.get("patch", "patch.diff"))
shutil.copy(patch, os.path.join(dst, "patch.diff"))
for f in glob.glob(st + "/demo*"):
    shutil.copy(f, dst)
am = json.load(open(os.path.join(st, "meta.json")))
prop = am.get("property", sid.split(".")[0])
demo = [os.path.basename(f) for f in glob.glob(st + "/demo_*.rs")]
pkg = "open-coroutine" if res.get("crate") == "open-coroutine" else "open-coroutine-core"
meta = {
    "property": prop,
    "breaks": am.get("summary") or am.get("breaks"),
    "needs_to_manifest": am.get("needs_to_manifest"),
    "files_changed": am.get("files_changed"),
    "origin": "written by an independent sub-agent that saw only the property record, a scratch worktree and a one-paragraph description of the earlier seeded fault for this property (to make it choose another mechanism)",
    "patch_note": "applies to the current /repo HEAD",
    "confirmed_by_me": {
        "how": "lib/confirm_seeded.sh in a scratch worktree of /repo at HEAD: apply patch; run the demonstration; run the 45-test baseline; revert; run the demonstration again",
        "demo_fails_with_patch": True, "baseline_suite_with_patch": res.get("suite_passed"), "demo_passes_without_patch": True,
        "demo_cmd": f"cargo test -p {pkg} {res.get('features','')} --test {demo[0][:-3] if demo else '?'} --offline".replace("  ", " "),
    },
    "detected_by": det,
    "how_run": f"lib/trymut.sh seeded/{name}/patch.diff {prop}  (git -C /repo apply; ./check {prop} --tier quick; git -C /repo checkout -- .)",
}
json.dump(meta, open(os.path.join(dst, "meta.json"), "w"), indent=1)
print("kept", dst)
