#!/opt/veriftools/pyvenv/bin/python
import json,jsonschema,sys,glob
m=json.load(open('/verif/MANIFEST.json')); s=json.load(open('/root/.vp/MANIFEST.schema.json'))
jsonschema.validate(m,s); print("manifest valid:", len(m['checks']), "checks")
es=json.load(open('/root/.vp/EVIDENCE.schema.json'))
for f in sorted(glob.glob('/verif/evidence/*.json')):
    e=json.load(open(f))
    try:
        jsonschema.validate(e,es); print(f.split('/')[-1], "valid", e['tier'], e['coverage'].get('evaluations'), e['coverage'].get('distinct_nontrivial'), 'viol', e.get('violations'))
    except Exception as ex:
        print(f, "INVALID", str(ex)[:300])
