#!/usr/bin/env python3
"""Per-file line coverage of /repo/core/src from an lcov file + uncovered line ranges (written to work/cov/uncovered.txt)."""
import sys, collections
cov = collections.defaultdict(dict)
cur = None
for l in open(sys.argv[1]):
    l = l.strip()
    if l.startswith("SF:"):
        cur = l[3:]
    elif l.startswith("DA:") and cur:
        n, c = l[3:].split(",")[:2]
        cov[cur][int(n)] = max(cov[cur].get(int(n), 0), int(c))
rows = []
out = open("/verif/work/cov/uncovered.txt", "w")
for f, d in sorted(cov.items()):
    if "/repo/" not in f:
        continue
    tot = len(d); hit = sum(1 for v in d.values() if v > 0)
    rows.append((f.replace("/repo/", ""), hit, tot))
    miss = sorted(n for n, v in d.items() if v == 0)
    ranges = []
    for n in miss:
        if ranges and n <= ranges[-1][1] + 1:
            ranges[-1][1] = n
        else:
            ranges.append([n, n])
    out.write(f"{f} {hit}/{tot}\n  " + " ".join(f"{a}-{b}" if a != b else str(a) for a, b in ranges) + "\n")
th = sum(r[1] for r in rows); tt = sum(r[2] for r in rows)
for f, h, t in rows:
    print(f"{100*h/max(t,1):5.1f}%  {h:5d}/{t:<5d} {f}")
print(f"{100*th/max(tt,1):5.1f}%  {th}/{tt} TOTAL (lines with code, /repo only)")
