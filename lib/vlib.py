"""Driver library for the open-coroutine runtime-monitoring checks.

A *workload binary* executes cases [from,to) and appends JSONL records prefixed
with '@@' to its --out file (or stdout):
    {"t":"begin","case":i,"desc":{..}}      before the case starts (flushed)
    {"t":"desc","case":i,"desc":{..}}       optional richer description
    {"t":"end","case":i,"verdict":"held|violated|inconclusive","sig":..,
     "nontrivial":bool,"fp":..,"obs":{..},"detail":..}
    {"t":"stat","stat":{..}}
The driver fans case ranges out over processes, restarts after a crash/hang at
the case after the one in progress, classifies what happened to that case with a
per-check crash policy, matches violation signatures against
known_findings.json, writes replay files and the evidence file.
"""
import json
import re, os, subprocess, sys, time, hashlib, signal, shutil, threading
from concurrent.futures import ThreadPoolExecutor

VERIF = os.path.dirname(os.path.dirname(os.path.abspath(__file__)))
REPO = "/repo"
EVID = os.path.join(VERIF, "evidence")
REPLAY = os.path.join(VERIF, "replay")
WORK = os.path.join(VERIF, "work")
NCPU = os.cpu_count() or 8

BASE_ENV = dict(os.environ)
BASE_ENV.update({"CARGO_NET_OFFLINE": "true", "CARGO_TERM_COLOR": "never", "RUST_BACKTRACE": "0"})
# VERIF_COV=1: measurement mode (lib/coverage.sh) - workloads are built with source-based coverage instrumentation into
# separate target directories and every workload process leaves a profile under work/cov; verdicts are unaffected.
COV = bool(os.environ.get("VERIF_COV"))
if COV:
    os.makedirs(os.path.join(os.path.dirname(os.path.dirname(os.path.abspath(__file__))), "work", "cov"), exist_ok=True)
    BASE_ENV["LLVM_PROFILE_FILE"] = os.path.join(os.path.dirname(os.path.dirname(os.path.abspath(__file__))), "work", "cov", "%p-%8m.profraw")


def log(*a):
    print(*a, file=sys.stderr, flush=True)


class BuildError(Exception):
    pass


_build_lock = threading.Lock()


def cargo_build(crate, bins=None, features=None, target_dir=None, toolchain=None, rustflags=None,
                extra=None, profile="release", env_extra=None, target=None, timeout=3600):
    """Build workload binaries against /repo's current working tree. Returns the dir holding the binaries."""
    cdir = os.path.join(VERIF, crate)
    lock = os.path.join(cdir, "Cargo.lock")
    if not os.path.exists(lock):
        shutil.copy(os.path.join(REPO, "Cargo.lock"), lock)
    tdir = target_dir or os.path.join(cdir, "target")
    if COV and not (rustflags and "sanitizer" in rustflags):
        toolchain = toolchain or "nightly"
        rustflags = ((rustflags + " ") if rustflags else "") + "-Cinstrument-coverage"
        tdir += "-cov"
    cmd = ["cargo"]
    if toolchain:
        cmd.append("+" + toolchain)
    cmd += ["build", "--offline", "--target-dir", tdir]
    if profile == "release":
        cmd.append("--release")
    for b in bins or []:
        cmd += ["--bin", b]
    if features:
        cmd += ["--features", ",".join(features)]
    if target:
        cmd += ["--target", target]
    cmd += extra or []
    env = dict(BASE_ENV)
    if rustflags:
        env["RUSTFLAGS"] = rustflags
    env.update(env_extra or {})
    t0 = time.time()
    with _build_lock:
        p = subprocess.run(cmd, cwd=cdir, env=env, stdout=subprocess.PIPE, stderr=subprocess.STDOUT, text=True, timeout=timeout)
    if p.returncode != 0:
        log(p.stdout[-6000:])
        raise BuildError(f"cargo build failed in {crate} ({' '.join(cmd)})")
    log(f"[build] {crate} {features or ''} {toolchain or ''} ok in {time.time()-t0:.1f}s")
    sub = "release" if profile == "release" else "debug"
    return os.path.join(tdir, target, sub) if target else os.path.join(tdir, sub)


def parse_records(text):
    recs = []
    for line in text.splitlines():
        i = line.find("@@{")
        if i < 0:
            continue
        try:
            recs.append(json.loads(line[i + 2:]))
        except Exception:
            pass
    return recs


class Case:
    __slots__ = ("idx", "desc", "verdict", "sig", "nontrivial", "fp", "obs", "detail", "replay", "engine")

    def __init__(self, idx):
        self.idx = idx
        self.desc = None
        self.verdict = None
        self.sig = ""
        self.nontrivial = False
        self.fp = ""
        self.obs = None
        self.detail = ""
        self.replay = None
        self.engine = ""

    def as_sample(self):
        return {"case": self.idx, "engine": self.engine, "desc": self.desc, "observed": self.obs, "verdict": self.verdict}


def default_crash_policy(case, rc, timed_out, tail):
    """What a dead/hung child means for the case that was in progress: inconclusive unless the check says otherwise."""
    return ("inconclusive", "harness/child-" + ("timeout" if timed_out else f"exit-{rc}"), tail[-300:])


def run_range(argv, lo, hi, *, engine="", env=None, case_timeout=60.0, crash_policy=None, cwd=None,
              out_via_file=True, extra_args=None, stats=None, multi_end=False, kill_grace=2.0):
    """Run cases [lo,hi) in child processes, resuming after the in-progress case when a child dies.
    `multi_end`: a case may legitimately emit several begin/end pairs (Miri many-seeds)."""
    crash_policy = crash_policy or default_crash_policy
    cases = []
    cur = lo
    os.makedirs(WORK, exist_ok=True)
    while cur < hi:
        outf = None
        cmd = list(argv) + ["--from", str(cur), "--to", str(hi)] + list(extra_args or [])
        if out_via_file:
            outf = os.path.join(WORK, f"out-{os.getpid()}-{threading.get_ident()}-{cur}.jsonl")
            if os.path.exists(outf):
                os.remove(outf)
            cmd += ["--out", outf]
        e = dict(BASE_ENV)
        e.update(env or {})
        budget = case_timeout * (hi - cur) + 10
        t0 = time.time()
        p = subprocess.Popen(cmd, cwd=cwd, env=e, stdout=subprocess.PIPE, stderr=subprocess.STDOUT, text=True,
                             start_new_session=True, errors="replace")
        timed_out = False
        # per-case progress watchdog: kill when no new record for case_timeout seconds
        last_size, last_change = -1, time.time()
        chunks = []
        reader = threading.Thread(target=lambda: chunks.append(p.stdout.read()), daemon=True)
        reader.start()
        while True:
            try:
                p.wait(timeout=0.25)
                break
            except subprocess.TimeoutExpired:
                pass
            sz = os.path.getsize(outf) if outf and os.path.exists(outf) else sum(len(c) for c in chunks)
            if sz != last_size:
                last_size, last_change = sz, time.time()
            if time.time() - last_change > case_timeout or time.time() - t0 > budget:
                timed_out = True
                try:
                    os.killpg(p.pid, signal.SIGKILL)
                except ProcessLookupError:
                    pass
                p.wait()
                break
        reader.join(timeout=kill_grace)
        stdout = "".join(c for c in chunks if c)
        text = stdout
        if outf and os.path.exists(outf):
            text = open(outf, errors="replace").read()
            os.remove(outf)
        recs = parse_records(text)
        open_case = None
        by_idx = {}
        ended = set()
        for r in recs:
            t = r.get("t")
            if t == "begin":
                c = by_idx.get(r["case"])
                if c is None:
                    c = Case(r["case"])
                    c.engine = engine
                    by_idx[r["case"]] = c
                    cases.append(c)
                c.desc = r.get("desc")
                open_case = c
            elif t == "desc":
                c = by_idx.get(r["case"])
                if c is not None:
                    c.desc = r.get("desc")
            elif t == "end":
                c = by_idx.get(r["case"])
                if c is None:
                    c = Case(r["case"])
                    c.engine = engine
                    by_idx[r["case"]] = c
                    cases.append(c)
                if multi_end and c.verdict is not None:
                    # several executions of the same case (scheduler seeds): keep the worst verdict, merge fingerprints
                    rank = {"held": 0, "inconclusive": 1, "violated": 2}
                    c.fp = (c.fp + "\x1f" + r.get("fp", ""))[:4000]
                    c.nontrivial = c.nontrivial or bool(r.get("nontrivial"))
                    if rank[r["verdict"]] > rank[c.verdict]:
                        c.verdict, c.sig, c.detail, c.obs = r["verdict"], r.get("sig", ""), r.get("detail", ""), r.get("obs")
                else:
                    c.verdict = r["verdict"]
                    c.sig = r.get("sig", "")
                    c.nontrivial = bool(r.get("nontrivial"))
                    c.fp = r.get("fp", "")
                    c.obs = r.get("obs")
                    c.detail = r.get("detail", "")
                ended.add(r["case"])
                if open_case is c:
                    open_case = None
            elif t == "stat" and stats is not None:
                stats.append(r.get("stat"))
        rc = p.returncode
        if open_case is not None and open_case.idx not in ended:
            v, sig, detail = crash_policy(open_case, rc, timed_out, stdout[-2000:])
            open_case.verdict, open_case.sig, open_case.detail = v, sig, detail
            cur = open_case.idx + 1
            continue
        if rc == 0 and not timed_out:
            # a workload may end its process on purpose after a case (e.g. a wait that cannot be cancelled)
            last = max([c.idx for c in by_idx.values()], default=None)
            if last is None or last + 1 >= hi:
                break
            cur = last + 1
            continue
        # child died between cases or before the first begin
        nxt = max([c.idx for c in by_idx.values()] + [cur - 1]) + 1
        if not by_idx:
            c = Case(cur)
            c.engine = engine
            c.verdict, c.sig, c.detail = "inconclusive", f"harness/child-died-before-first-case rc={rc} timeout={timed_out}", stdout[-600:]
            cases.append(c)
            nxt = cur + 1
        cur = nxt
    return cases


TIMING_SIG = re.compile(r"returns-late|far-too-late|not-prompt|timed-out|did-not-wake|one-after-another|starved|never-returned|never-finished|did-not-finish"
                        r"|waited-for|too-late|never-preempted|slept-out|waits-out|not-settled-promptly|completion-lost|another-task-never-ran|process-hung|never-returns|come-back-late|loop-thread-stalled")


def fan_out(argv, ncases, *, jobs=None, shard=None, confirm_timing=False, **kw):
    """Split [0,ncases) into shards and run them in parallel.

    confirm_timing: a violation whose signature says "too late / never came back" can be produced by a machine that is
    busy with the other shards (or with anything else). Such a case is run again, alone and twice, after the parallel
    phase; it stays a violation only if it fails with the same signature both times, otherwise it becomes inconclusive."""
    jobs = jobs or NCPU
    shard = shard or max(1, (ncases + jobs - 1) // jobs)
    ranges = [(a, min(ncases, a + shard)) for a in range(0, ncases, shard)]
    out = []
    with ThreadPoolExecutor(max_workers=jobs) as ex:
        futs = [ex.submit(run_range, argv, a, b, **kw) for a, b in ranges]
        for f in futs:
            out.extend(f.result())
    if confirm_timing:
        known = {k["signature"] for k in load_known() if k.get("status") == "known"}
        suspects = [c for c in out if c.verdict == "violated" and TIMING_SIG.search(c.sig or "") and c.sig not in known]
        for c in suspects[:12]:
            again = []
            for _ in range(2):
                r = run_range(argv, c.idx, c.idx + 1, **kw)
                again.append(r[0] if r else None)
                if not (again[-1] and again[-1].verdict == "violated" and again[-1].sig == c.sig):
                    break
            if len(again) == 2 and all(a and a.verdict == "violated" and a.sig == c.sig for a in again):
                c.detail = (c.detail or "") + " [reproduced twice when run alone]"
            else:
                last = again[-1]
                c.detail = f"first run: {c.sig}: {c.detail}; rerun alone: {last.verdict if last else 'no record'} {last.sig if last else ''}"
                c.verdict, c.sig, c.nontrivial = "inconclusive", "timing-violation-not-reproduced-when-rerun-alone", False
        for c in suspects[12:]:
            # more late cases than can be rerun: they share the fate of the rerun sample with the same signature
            same = [d for d in suspects[:12] if d.detail and d.detail.startswith("first run: " + c.sig)]
            if same:
                c.detail = f"first run: {c.sig}: {c.detail}; not rerun, the rerun sample with this signature did not reproduce"
                c.verdict, c.sig, c.nontrivial = "inconclusive", "timing-violation-not-reproduced-when-rerun-alone", False
    return out


def load_known():
    p = os.path.join(VERIF, "known_findings.json")
    if not os.path.exists(p):
        return []
    return json.load(open(p)).get("findings", [])


def finish(pid, tier, seed, level, cases, *, rule, t0, assumptions=None, extra_cov=None, min_conclusive=2,
           replay_builder=None, stats=None, exhaustive=None):
    """Aggregate, match known findings, write replay + evidence, print verdict lines, return exit code."""
    os.makedirs(EVID, exist_ok=True)
    os.makedirs(REPLAY, exist_ok=True)
    known = [k for k in load_known() if k.get("property") == pid and k.get("status") == "known"]
    known_sigs = {k["signature"]: k for k in known}
    held = [c for c in cases if c.verdict == "held"]
    viol = [c for c in cases if c.verdict == "violated"]
    inconc = [c for c in cases if c.verdict not in ("held", "violated")]
    fps = set()
    for c in cases:
        if c.nontrivial and c.verdict in ("held", "violated"):
            for f in (c.fp or f"case{c.idx}:{c.engine}").split("\x1f"):
                if f:
                    fps.add(f)
    new_sigs = {}
    known_hit = {}
    for c in viol:
        if c.sig in known_sigs:
            known_hit.setdefault(c.sig, []).append(c)
        else:
            new_sigs.setdefault(c.sig, []).append(c)
    lines = []
    for sig, cs in sorted(known_hit.items()):
        lines.append(f"KNOWN-FINDING: property={pid} {sig} :: {known_sigs[sig].get('what','')} ({len(cs)} cases this run)")
    rc = 0
    for sig, cs in sorted(new_sigs.items()):
        c = cs[0]
        path = os.path.join(REPLAY, f"{pid}-{hashlib.sha1(sig.encode()).hexdigest()[:10]}.json")
        rp = {"property": pid, "signature": sig, "seed": seed, "tier": tier, "case": c.idx, "engine": c.engine,
              "desc": c.desc, "observed": c.obs, "detail": c.detail, "occurrences_this_run": len(cs)}
        if c.engine.startswith("LD_PRELOAD") or "LD_PRELOAD" in c.engine:
            from checks import common_hook
            rp["replay"] = common_hook.replay_cmd(c, seed)
        elif replay_builder:
            rp["replay"] = replay_builder(c)
        json.dump(rp, open(path, "w"), indent=1)
        lines.append(f"VIOLATION property={pid} replay={path}")
        log(f"  signature: {sig}\n  detail: {c.detail[:500]}")
        rc = 1
    conclusive = len(held) + len(viol)
    samples = [c.as_sample() for c in (viol[:2] + [c for c in held if c.nontrivial][:3] + held[:1])][:5]
    if not samples and cases:
        samples = [cases[0].as_sample()]
    cov = {
        "evaluations": len(cases),
        "distinct_nontrivial": len(fps),
        "rule": rule,
        "samples": samples,
        "held": len(held),
        "violated": len(viol),
        "inconclusive": len(inconc),
        "inconclusive_reasons": sorted({c.sig for c in inconc})[:10],
        "violation_signatures": sorted({c.sig for c in viol}),
        "known_findings_observed": sorted(known_hit.keys()),
        "engines": sorted({c.engine for c in cases}),
    }
    if stats:
        cov["workload_stats"] = stats[:20]
    if exhaustive is not None:
        cov["exhaustive"] = bool(exhaustive)
    cov.update(extra_cov or {})
    ev = {"property_id": pid, "tier": tier, "seed": int(seed), "level": level, "coverage": cov,
          "assumptions": assumptions or [], "wall_s": round(time.time() - t0, 2), "violations": len(viol)}
    json.dump(ev, open(os.path.join(EVID, f"{pid}.json"), "w"), indent=1)
    for l in lines:
        print(l, flush=True)
    if rc == 0 and (conclusive < min_conclusive or len(fps) < 2):
        print(f"INCONCLUSIVE property={pid} conclusive={conclusive} nontrivial_distinct={len(fps)} inconclusive={len(inconc)} reasons={cov['inconclusive_reasons']}", flush=True)
        return 2
    print(f"[{pid}] tier={tier} seed={seed} cases={len(cases)} held={len(held)} violated={len(viol)} (known {sum(len(v) for v in known_hit.values())}) "
          f"inconclusive={len(inconc)} distinct_nontrivial={len(fps)} wall={ev['wall_s']}s", flush=True)
    return rc
