#!/bin/bash
# confirm_seeded.sh <worker-id> <ID>... : independently confirm seeded faults in a scratch worktree of /repo (current HEAD).
# For each: patch applies, demo FAILS with the patch, the 45-test baseline passes with the patch, demo PASSES without it.
w=$1; shift
export CARGO_NET_OFFLINE=true CARGO_TARGET_DIR=${CF_TARGET:-/tmp/cf/target-$w}
for id in "$@"; do
  st=/verif/seeded_staging/$id
  out=/tmp/cf/$id.result
  wt=/tmp/cf/wt-$id
  rm -rf $wt; git -C /repo worktree prune; git -C /repo worktree add --detach $wt HEAD >/dev/null 2>&1
  patch=$st/patch.diff; [ -f $st/patch.rebased.diff ] && patch=$st/patch.rebased.diff
  cd $wt
  if ! git apply --3way $patch >/tmp/cf/$id.apply 2>&1; then echo "{\"id\":\"$id\",\"applies\":false}" > $out; git -C /repo worktree remove --force $wt; continue; fi
  git reset -q
  demo=$(ls $st/demo_*.rs | head -1); base=$(basename $demo)
  crate=core; feat=""
  grep -qi "open-coroutine/tests" $st/demo.md $st/meta.json 2>/dev/null && crate=open-coroutine
  grep -qi "features preemptive\|--features preemptive" $st/demo.md $st/meta.json 2>/dev/null && feat="--features preemptive"
  grep -qi "io_uring" $st/demo.md $st/meta.json 2>/dev/null && feat="--features io_uring"
  pkg=open-coroutine-core; [ $crate = open-coroutine ] && pkg=open-coroutine
  cp $demo $wt/$crate/tests/$base
  t=${base%.rs}
  timeout 900 cargo test -p $pkg $feat --test $t --offline -- --test-threads 1 > /tmp/cf/$id.demo_with 2>&1; with=$?
  mv $wt/$crate/tests/$base /tmp/cf/$id.$base.aside
  timeout 1500 cargo nextest run --workspace --no-fail-fast --test-threads 8 --offline > /tmp/cf/$id.suite 2>&1; suite=$?
  passed=$(grep -oE '[0-9]+ passed' /tmp/cf/$id.suite | tail -1)
  git checkout -- . ; mv /tmp/cf/$id.$base.aside $wt/$crate/tests/$base
  timeout 900 cargo test -p $pkg $feat --test $t --offline -- --test-threads 1 > /tmp/cf/$id.demo_without 2>&1; without=$?
  echo "{\"id\":\"$id\",\"applies\":true,\"patch\":\"$(basename $patch)\",\"demo_rc_with_patch\":$with,\"suite_rc_with_patch\":$suite,\"suite_passed\":\"$passed\",\"demo_rc_without_patch\":$without,\"crate\":\"$crate\",\"features\":\"$feat\"}" > $out
  cd /; git -C /repo worktree remove --force $wt
done
