#!/bin/bash
# trymut.sh <patch> <PROP>... : apply a seeded patch to /repo, run the quick checks, always revert
patch=$1; shift
cd /repo || exit 9
if ! git diff --quiet; then echo "/repo dirty, refusing"; exit 9; fi
git apply --3way "$patch" 2>/tmp/trymut.err || { echo "PATCH DOES NOT APPLY"; cat /tmp/trymut.err; git reset -q --hard HEAD; exit 8; }
git reset -q
git diff --stat | tail -1
cd /verif
for p in "$@"; do
  timeout ${TRYMUT_TIMEOUT:-1500} ./check $p --tier ${TIER:-quick} 2>&1 | grep -E 'VIOLATION|KNOWN-FINDING|INCONCLUSIVE|BUILD-FAILED|^\[C|signature|detail' | cut -c1-600
  echo "rc[$p]=${PIPESTATUS[0]}"
done
git -C /repo checkout -- .
git -C /repo status --short | head -3
