#!/bin/bash
# coverage.sh [ID...]: which lines of /repo/core/src do the quick workloads of the checks execute?
# Builds the workload crates with -Cinstrument-coverage (nightly, separate target dirs *-cov), runs the quick tier of the given
# checks (default: all) with VERIF_COV=1, merges the profiles and prints a per-file table plus the uncovered regions of the
# files the properties are anchored in. Measurement only: nothing here decides a property.
cd /verif
ids="$@"; [ -z "$ids" ] && ids=$(seq -f "C%02g" 1 28)
rm -rf work/cov; mkdir -p work/cov
for id in $ids; do VERIF_COV=1 ./check $id --tier quick 2>&1 | grep -E "^\[C|BUILD" | cut -c1-160; done
git checkout -- evidence 2>/dev/null
T=$(rustc +nightly --print sysroot)/lib/rustlib/x86_64-unknown-linux-gnu/bin
ls work/cov/*.profraw > work/cov/list.txt
$T/llvm-profdata merge -sparse -f work/cov/list.txt -o work/cov/all.profdata 2>work/cov/merge.err
objs=""
for b in wl-core/target-cov/release/{coro,stack,sys,loops,pool} wl-core/target-preemptive-cov/release/preempt wl-core/target-io_uring-cov/release/uring wl-pure/target-cov/release/{queues,beans,local} wl-hook/target-cov/release/hooked; do [ -x $b ] && objs="$objs -object $b"; done
$T/llvm-cov report $objs -instr-profile=work/cov/all.profdata --ignore-filename-regex='(/root/.cargo|/rustc/|/verif/)' 2>/dev/null > work/cov/report.txt
$T/llvm-cov export $objs -instr-profile=work/cov/all.profdata --ignore-filename-regex='(/root/.cargo|/rustc/|/verif/)' -format=lcov 2>/dev/null > work/cov/all.lcov
python3 lib/coverage_report.py work/cov/all.lcov
