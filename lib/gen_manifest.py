#!/usr/bin/env python3
"""Regenerates /verif/MANIFEST.json from the table below (keeps it valid while checks are being added)."""
import json, os, subprocess

VERIF = os.path.dirname(os.path.dirname(os.path.abspath(__file__)))

# id -> (level, technique, level text, level note, design ref, engine)
CHECKS = {
    "C03": ("exploration", "runtime monitoring: conservation/exactly-once oracle over seeded concurrent queue programs + Miri data-race/UB interpreter (many scheduler seeds) + TSan",
            "Held on the explored executions only: seeded multi-thread push/pop programs on the real queue sources, judged at quiescence by a conservation oracle (no duplicate, popped+drained == pushed, reported shared length == content), under native stress, Miri's randomised scheduler (data races, UB) and TSan. Sampling, not exhaustive over schedules.",
            "Trusts: Miri/TSan memory models; crossbeam/st3 internals (Stacked Borrows disabled because the dependencies trip it); local handles used by one thread each.", "DESIGN.md §3 C03", "wl-pure/queues"),
    "C04": ("exploration", "runtime monitoring: per-call thread-CPU-time watchdog (bounded-progress restatement of termination) over seeded sequential histories and concurrent programs",
            "Termination restated as bounded progress: no push/pop call may burn more than 1 s of its own thread's CPU time. Held on the explored histories (hundreds to thousands of seeded sequential histories built to steal-then-overflow, plus concurrent programs); a finite run cannot decide unbounded termination.",
            "Trusts the thread CPU clock; the 1 s bound is 5 orders of magnitude above a healthy call; submission is covered through the queue calls it makes plus the runtime-level submitter watchdog in C01.", "DESIGN.md §3 C04", "wl-pure/queues"),
    "C05": ("exploration", "runtime monitoring: reference-model (ordered multimap) oracle over seeded histories + bounded-exhaustive small histories",
            "Pop order compared against an ordered-multimap model wherever the statement is unambiguous (shared queue alone, one local within capacity, steal batches incl. priority preservation), thousands of seeded histories with ties/extreme priorities plus every history of <= 5 (quick) / 7 (thorough) ops over 3 priorities; pool-level single-worker start order in the runtime-level workload.",
            "Sequential histories; overflowed histories are deliberately not judged against a global order (the statement does not promise one).", "DESIGN.md §3 C05", "wl-pure/queues"),
    "C06": ("exploration", "runtime monitoring: enumerated configurations with a counting oracle (pops until the shared item appears <= 61; idle pop != None)",
            "Every (prior-pop phase 0..200, x-priority, queue kind) and every (capacity 1..16, item count, shared|sibling, kind) configuration is executed on the real queues and judged; plus seeded 'emptied by thieves, then idle' histories. Complete over the stated grid, nothing beyond it.",
            "Sequential histories; the 61 bound is read for an item alone in the shared queue.", "DESIGN.md §3 C06", "wl-pure/queues"),
    "C25": ("exploration", "runtime monitoring: model-based oracle with drop-counting values over seeded histories, natively, under Miri (leak checker on) and on real coroutines",
            "Every return value of put/get/get_mut/remove is compared with a per-storage HashMap model, and after the owner is dropped every value must have been dropped exactly once; thousands of seeded histories natively, dozens under Miri (UAF/double free/leak as independent witness), plus real coroutines.",
            "Keys are used with one value type each (type-erased API by design).", "DESIGN.md §3 C25", "wl-pure/local"),
    "C26": ("exploration", "runtime monitoring: address-agreement oracle over barrier-released first users; forked fresh processes for the factory's own first use; Miri many-seeds and TSan as race detectors",
            "All threads racing on the first use of a bean name (and of the factory itself, one fresh process per trial) must be handed one instance that later lookups also return. Thousands of races sampled natively, Miri explores small cases under many scheduler seeds and flags data races; sampling only.",
            "Sampled schedules; users of singletons are assumed to go through BeanFactory::get_or_default.", "DESIGN.md §3 C26", "wl-pure/beans"),
}

NOT_YET = "check not built yet in this session (work in progress; see DESIGN.md §3 for the planned monitor)"


def main():
    props = [json.loads(l) for l in open(os.path.join(VERIF, "properties.jsonl"))]
    checks = []
    na = []
    for p in props:
        pid = p["id"]
        if pid in CHECKS:
            level, tech, text, note, ref, engine = CHECKS[pid]
            checks.append({
                "property_id": pid,
                "quick_cmd": f"./check {pid} --tier quick",
                "thorough_cmd": f"./check {pid} --tier thorough",
                "evidence_file": f"/verif/evidence/{pid}.json",
                "replay_cmd_template": f"./check {pid} --replay {{path}}",
                "engine": engine,
                "level_claimed": {"category": level, "text": text, "design_ref": ref},
                "level_note": note,
                "technique": tech,
            })
        else:
            na.append({"property_id": pid, "reason": NA.get(pid, NOT_YET)})
    hooks_commits = subprocess.run(["git", "-C", "/repo", "log", "--format=%H %s"], capture_output=True, text=True).stdout.splitlines()
    hook_shas = [l.split()[0] for l in hooks_commits if "verif" in l.lower() and not l.split(" ", 1)[1].startswith("fix:")]
    m = {
        "version": 1,
        "setup_cmd": "./setup.sh",
        "hooks": {
            "guard": "cargo feature `verif` of open-coroutine-core (off by default)",
            "enable": "workload crates depend on open-coroutine-core with features = [\"verif\", ...]; nothing else changes",
            "baseline_off_cmd": "cd /repo && cargo nextest run --workspace --no-fail-fast --test-threads 8 --offline || cargo test --workspace --no-fail-fast --offline",
            "source_commits": hook_shas,
            "add_only": True,
        },
        "engines": ENGINES,
        "checks": checks,
        "not_applicable": na,
        "notes": "Technique family: runtime monitoring and sanitizers. Every check rebuilds its workload binaries against /repo's working tree (path dependencies / #[path] includes), runs seeded workloads under online/offline oracles, and writes /verif/evidence/<id>.json. Verdicts are three-valued; exit 2 = inconclusive/build failure (never reported as a violation). Known findings: /verif/known_findings.json.",
    }
    json.dump(m, open(os.path.join(VERIF, "MANIFEST.json"), "w"), indent=1)
    print(f"MANIFEST.json: {len(checks)} checks, {len(na)} not_applicable")


NA = {}

ENGINES = [
    {"name": "wl-pure/queues", "path": "/verif/wl-pure", "serves_properties": ["C03", "C04", "C05", "C06", "C25", "C26"],
     "kind_free_text": "Rust workload binary over the real work_steal.rs/ordered_work_steal.rs (#[path] include), run natively, under Miri and under TSan; online oracles"},
    {"name": "driver", "path": "/verif/check", "serves_properties": [],
     "kind_free_text": "python3 driver: builds, fans seeded case ranges out over processes, resumes after crashes/hangs, matches signatures against known_findings.json, writes evidence/replay"},
]

if __name__ == "__main__":
    main()
