#!/usr/bin/env python3
"""Regenerates /verif/MANIFEST.json from the table below (keeps it valid while checks are being added)."""
import json, os, subprocess

VERIF = os.path.dirname(os.path.dirname(os.path.abspath(__file__)))

# id -> (level, technique, level text, level note, design ref, engine)
CHECKS = {
    "C03": ("exploration", "runtime monitoring: conservation/exactly-once oracle over seeded concurrent queue programs + Miri data-race/UB interpreter (many scheduler seeds) + TSan",
            "Held on the explored executions only: seeded multi-thread push/pop programs on the real queue sources, judged at quiescence by a conservation oracle (no duplicate, popped+drained == pushed, reported shared length == content), under native stress, Miri's randomised scheduler (data races, UB) and TSan. Sampling, not exhaustive over schedules.",
            "Trusts: Miri/TSan memory models; crossbeam/st3 internals (Stacked Borrows disabled because the dependencies trip it); local handles used by one thread each.", "DESIGN.md §3 C03", "wl-pure/queues"),
    "C04": ("exploration", "runtime monitoring: per-call thread-CPU-time watchdog (bounded-progress restatement of termination) over seeded sequential histories and concurrent programs",
            "Termination restated as bounded progress: no push/pop call may burn more than 1 s of its own thread's CPU time. Held on the explored histories (hundreds to thousands of seeded sequential histories built to steal-then-overflow, plus concurrent programs); a finite run cannot decide unbounded termination.",
            "Trusts the thread CPU clock; the 1 s bound is 5 orders of magnitude above a healthy call; submission is covered through the queue calls it makes plus the runtime-level submitter watchdog in C01.", "DESIGN.md §3 C04", "wl-pure/queues"),
    "C05": ("exploration", "runtime monitoring: reference-model (ordered multimap) oracle over seeded histories + bounded-exhaustive small histories",
            "Pop order compared against an ordered-multimap model wherever the statement is unambiguous (shared queue alone, one local within capacity, steal batches incl. priority preservation), thousands of seeded histories with ties/extreme priorities plus every history of <= 5 (quick) / 7 (thorough) ops over 3 priorities; pool-level single-worker start order in the runtime-level workload.",
            "Sequential histories; overflowed histories are deliberately not judged against a global order (the statement does not promise one).", "DESIGN.md §3 C05", "wl-pure/queues"),
    "C06": ("exploration", "runtime monitoring: enumerated configurations with a counting oracle (pops until the shared item appears <= 61; idle pop != None)",
            "Every (prior-pop phase 0..200, x-priority, queue kind) and every (capacity 1..16, item count, shared|sibling, kind) configuration is executed on the real queues and judged; plus seeded 'emptied by thieves, then idle' histories. Complete over the stated grid, nothing beyond it.",
            "Sequential histories; the 61 bound is read for an item alone in the shared queue.", "DESIGN.md §3 C06", "wl-pure/queues"),
    "C25": ("exploration", "runtime monitoring: model-based oracle with drop-counting values over seeded histories, natively, under Miri (leak checker on) and on real coroutines",
            "Every return value of put/get/get_mut/remove is compared with a per-storage HashMap model, and after the owner is dropped every value must have been dropped exactly once; thousands of seeded histories natively, dozens under Miri (UAF/double free/leak as independent witness), plus real coroutines.",
            "Keys are used with one value type each (type-erased API by design).", "DESIGN.md §3 C25", "wl-pure/local"),
    "C26": ("exploration", "runtime monitoring: address-agreement oracle over barrier-released first users; forked fresh processes for the factory's own first use; Miri many-seeds and TSan as race detectors",
            "All threads racing on the first use of a bean name (and of the factory itself, one fresh process per trial) must be handed one instance that later lookups also return. Thousands of races sampled natively, Miri explores small cases under many scheduler seeds and flags data races; sampling only.",
            "Sampled schedules; users of singletons are assumed to go through BeanFactory::get_or_default.", "DESIGN.md §3 C26", "wl-pure/beans"),
    "C07": ("exploration", "runtime monitoring: online automaton over Listener events (trace specification of the documented state graph) on generated bodies and resume sequences; ASan overlay in thorough",
            "A recording listener feeds an automaton that checks continuity, documented edges (incl. 'once due'), exactly-one matching callback with payload, state()==last report, silence after terminal states and stored-outcome resumes, over thousands of generated body x resume-sequence programs (direct and via Scheduler).",
            "A body that ends while parked in a Syscall state has no documented edge; the oracle only demands that nothing illegal is reported.", "DESIGN.md §3 C07", "wl-core/coro"),
    "C08": ("exploration", "runtime monitoring: unique-value in/out sequence oracle across the coroutine boundary; ASan overlay in thorough",
            "Unique 64-bit payloads both ways over bodies with 0-64 suspend points, every ending (return, panic with &str / formatted String / non-string payload), optional panicking listener and a sibling parked in a delay; checks order, exactly-once completion, message fidelity, no unwinding into the resumer.",
            "Single thread; payloads without a string have no message to carry.", "DESIGN.md §3 C08", "wl-core/coro"),
    "C09": ("exploration", "runtime monitoring: per-yield isolation oracle (no carry-over model) over interleavings of 2-6 coroutines on one thread",
            "Each yield's reported wake-up time / cancellation is compared with what that yield requested, over thousands of seeded interleavings that include requests issued in Syscall states (what hooked waits and the cancel signal handler do).",
            "Requests are thread-local, so one thread per history.", "DESIGN.md §3 C09", "wl-core/coro"),
    "C10": ("exploration", "runtime monitoring: offline checker over resumption stamps and result maps (exactly-once results, delay lower/upper bound in passes, silence after cancel)",
            "Hundreds to thousands of seeded schedules (1-40 coroutines, delays, panics, priorities, cancel requests between passes, random gaps) judged from body-side stamps and the scheduler's returned maps.",
            "One Scheduler at a time per process; pass budgets (150 ms) assumed never to be the limiting factor.", "DESIGN.md §3 C10", "wl-core/coro"),
    "C23": ("exploration", "runtime monitoring: in-callback stack-pointer/segment-bounds oracle over deep recursions incl. caught panics; process survival",
            "Inside every growth callback the stack pointer is located in a known segment and the room below it compared with the red zone; stack_infos() equality before/after (also after a caught panic); recursion of several stack sizes must survive, in coroutines and on plain threads.",
            "The runtime counts the guard page as room (oracle allows one page + 3 KiB); workload frames stay <= red_zone/4.", "DESIGN.md §3 C23", "wl-core/stack"),
    "C24": ("exploration", "runtime monitoring: fault injection inside coroutines (null/wild access, runaway recursion, faults with the stack pointer moved by inline asm) with result/message oracle and survival of siblings",
            "Each fault kind after 0-5 suspends must yield Error with the message the stack-pointer position calls for (boundary positions top, top-16, bottom, bottom-16, heap), the coroutine stays failed, healthy coroutines before/after are unaffected, the process survives.",
            "Segments include their guard page; x86-64 Linux only; not under ASan/valgrind.", "DESIGN.md §3 C24", "wl-core/stack"),
}

NOT_YET = "check not built yet in this session (work in progress; see DESIGN.md §3 for the planned monitor)"


def main():
    props = [json.loads(l) for l in open(os.path.join(VERIF, "properties.jsonl"))]
    checks = []
    na = []
    for p in props:
        pid = p["id"]
        if pid in CHECKS:
            level, tech, text, note, ref, engine = CHECKS[pid]
            checks.append({
                "property_id": pid,
                "quick_cmd": f"./check {pid} --tier quick",
                "thorough_cmd": f"./check {pid} --tier thorough",
                "evidence_file": f"/verif/evidence/{pid}.json",
                "replay_cmd_template": f"./check {pid} --replay {{path}}",
                "engine": engine,
                "level_claimed": {"category": level, "text": text, "design_ref": ref},
                "level_note": note,
                "technique": tech,
            })
        else:
            na.append({"property_id": pid, "reason": NA.get(pid, NOT_YET)})
    hooks_commits = subprocess.run(["git", "-C", "/repo", "log", "--format=%H %s"], capture_output=True, text=True).stdout.splitlines()
    hook_shas = [l.split()[0] for l in hooks_commits if "verif" in l.lower() and not l.split(" ", 1)[1].startswith("fix:")]
    m = {
        "version": 1,
        "setup_cmd": "./setup.sh",
        "hooks": {
            "guard": "cargo feature `verif` of open-coroutine-core (off by default)",
            "enable": "workload crates depend on open-coroutine-core with features = [\"verif\", ...]; nothing else changes",
            "baseline_off_cmd": "cd /repo && cargo nextest run --workspace --no-fail-fast --test-threads 8 --offline || cargo test --workspace --no-fail-fast --offline",
            "source_commits": hook_shas,
            "add_only": True,
        },
        "engines": ENGINES,
        "checks": checks,
        "not_applicable": na,
        "notes": "Technique family: runtime monitoring and sanitizers. Every check rebuilds its workload binaries against /repo's working tree (path dependencies / #[path] includes), runs seeded workloads under online/offline oracles, and writes /verif/evidence/<id>.json. Verdicts are three-valued; exit 2 = inconclusive/build failure (never reported as a violation). Known findings: /verif/known_findings.json.",
    }
    json.dump(m, open(os.path.join(VERIF, "MANIFEST.json"), "w"), indent=1)
    print(f"MANIFEST.json: {len(checks)} checks, {len(na)} not_applicable")


NA = {}

ENGINES = [
    {"name": "wl-pure/queues", "path": "/verif/wl-pure", "serves_properties": ["C03", "C04", "C05", "C06", "C25", "C26"],
     "kind_free_text": "Rust workload binary over the real work_steal.rs/ordered_work_steal.rs (#[path] include), run natively, under Miri and under TSan; online oracles"},
    {"name": "wl-core", "path": "/verif/wl-core", "serves_properties": ["C07", "C08", "C09", "C10", "C23", "C24", "C25"],
     "kind_free_text": "Rust workload binaries linked against /repo/core (path dependency, feature verif): generated programs + online oracles; rebuilt under ASan for thorough tiers"},
    {"name": "driver", "path": "/verif/check", "serves_properties": [],
     "kind_free_text": "python3 driver: builds, fans seeded case ranges out over processes, resumes after crashes/hangs, matches signatures against known_findings.json, writes evidence/replay"},
]

if __name__ == "__main__":
    main()
