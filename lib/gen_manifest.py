#!/usr/bin/env python3
"""Regenerates /verif/MANIFEST.json from the table below (keeps it valid while checks are being added)."""
import json, os, subprocess

VERIF = os.path.dirname(os.path.dirname(os.path.abspath(__file__)))

# id -> (level, technique, level text, level note, design ref, engine)
CHECKS = {
    "C03": ("exploration", "runtime monitoring: conservation/exactly-once oracle over seeded concurrent queue programs + Miri data-race/UB interpreter (many scheduler seeds) + TSan",
            "Held on the explored executions only: seeded multi-thread push/pop programs on the real queue sources, judged at quiescence by a conservation oracle (no duplicate, popped+drained == pushed, reported shared length == content), under native stress, Miri's randomised scheduler (data races, UB) and TSan. Sampling, not exhaustive over schedules.",
            "Trusts: Miri/TSan memory models; crossbeam/st3 internals (Stacked Borrows disabled because the dependencies trip it); local handles used by one thread each.", "DESIGN.md §3 C03", "wl-pure/queues"),
}

NOT_YET = "check not built yet in this session (work in progress; see DESIGN.md §3 for the planned monitor)"


def main():
    props = [json.loads(l) for l in open(os.path.join(VERIF, "properties.jsonl"))]
    checks = []
    na = []
    for p in props:
        pid = p["id"]
        if pid in CHECKS:
            level, tech, text, note, ref, engine = CHECKS[pid]
            checks.append({
                "property_id": pid,
                "quick_cmd": f"./check {pid} --tier quick",
                "thorough_cmd": f"./check {pid} --tier thorough",
                "evidence_file": f"/verif/evidence/{pid}.json",
                "replay_cmd_template": f"./check {pid} --replay {{path}}",
                "engine": engine,
                "level_claimed": {"category": level, "text": text, "design_ref": ref},
                "level_note": note,
                "technique": tech,
            })
        else:
            na.append({"property_id": pid, "reason": NA.get(pid, NOT_YET)})
    hooks_commits = subprocess.run(["git", "-C", "/repo", "log", "--format=%H %s"], capture_output=True, text=True).stdout.splitlines()
    hook_shas = [l.split()[0] for l in hooks_commits if "verif" in l.lower() and not l.split(" ", 1)[1].startswith("fix:")]
    m = {
        "version": 1,
        "setup_cmd": "./setup.sh",
        "hooks": {
            "guard": "cargo feature `verif` of open-coroutine-core (off by default)",
            "enable": "workload crates depend on open-coroutine-core with features = [\"verif\", ...]; nothing else changes",
            "baseline_off_cmd": "cd /repo && cargo nextest run --workspace --no-fail-fast --test-threads 8 --offline || cargo test --workspace --no-fail-fast --offline",
            "source_commits": hook_shas,
            "add_only": True,
        },
        "engines": ENGINES,
        "checks": checks,
        "not_applicable": na,
        "notes": "Technique family: runtime monitoring and sanitizers. Every check rebuilds its workload binaries against /repo's working tree (path dependencies / #[path] includes), runs seeded workloads under online/offline oracles, and writes /verif/evidence/<id>.json. Verdicts are three-valued; exit 2 = inconclusive/build failure (never reported as a violation). Known findings: /verif/known_findings.json.",
    }
    json.dump(m, open(os.path.join(VERIF, "MANIFEST.json"), "w"), indent=1)
    print(f"MANIFEST.json: {len(checks)} checks, {len(na)} not_applicable")


NA = {}

ENGINES = [
    {"name": "wl-pure/queues", "path": "/verif/wl-pure", "serves_properties": ["C03", "C04", "C05", "C06"],
     "kind_free_text": "Rust workload binary over the real work_steal.rs/ordered_work_steal.rs (#[path] include), run natively, under Miri and under TSan; online oracles"},
    {"name": "driver", "path": "/verif/check", "serves_properties": [],
     "kind_free_text": "python3 driver: builds, fans seeded case ranges out over processes, resumes after crashes/hangs, matches signatures against known_findings.json, writes evidence/replay"},
]

if __name__ == "__main__":
    main()
