#!/usr/bin/env python3
"""Regenerates /verif/MANIFEST.json from the table below (keeps it valid while checks are being added)."""
import json, os, subprocess

VERIF = os.path.dirname(os.path.dirname(os.path.abspath(__file__)))

# id -> (level, technique, level text, level note, design ref, engine)
CHECKS = {
    "C03": ("exploration", "runtime monitoring: conservation/exactly-once oracle over seeded concurrent queue programs + Miri data-race/UB interpreter (many scheduler seeds) + TSan",
            "Held on the explored executions only: seeded multi-thread push/pop programs on the real queue sources, judged at quiescence by a conservation oracle (no duplicate, popped+drained == pushed, reported shared length == content), under native stress, Miri's randomised scheduler (data races, UB) and TSan. Sampling, not exhaustive over schedules.",
            "Trusts: Miri/TSan memory models; crossbeam/st3 internals (Stacked Borrows disabled because the dependencies trip it); local handles used by one thread each.", "DESIGN.md §3 C03", "wl-pure/queues"),
    "C04": ("exploration", "runtime monitoring: per-call thread-CPU-time watchdog (bounded-progress restatement of termination) over seeded sequential histories and concurrent programs",
            "Termination restated as bounded progress: no push/pop call may burn more than 1 s of its own thread's CPU time. Held on the explored histories (hundreds to thousands of seeded sequential histories built to steal-then-overflow, plus concurrent programs); a finite run cannot decide unbounded termination.",
            "Trusts the thread CPU clock; the 1 s bound is 5 orders of magnitude above a healthy call; submission is covered through the queue calls it makes plus the runtime-level submitter watchdog in C01.", "DESIGN.md §3 C04", "wl-pure/queues"),
    "C05": ("exploration", "runtime monitoring: reference-model (ordered multimap) oracle over seeded histories + bounded-exhaustive small histories",
            "Pop order compared against an ordered-multimap model wherever the statement is unambiguous (shared queue alone, one local within capacity, steal batches incl. priority preservation), thousands of seeded histories with ties/extreme priorities plus every history of <= 5 (quick) / 7 (thorough) ops over 3 priorities; pool-level single-worker start order in the runtime-level workload.",
            "Sequential histories; overflowed histories are deliberately not judged against a global order (the statement does not promise one).", "DESIGN.md §3 C05", "wl-pure/queues"),
    "C06": ("exploration", "runtime monitoring: enumerated configurations with a counting oracle (pops until the shared item appears <= 61; idle pop != None)",
            "Every (prior-pop phase 0..200, x-priority, queue kind) and every (capacity 1..16, item count, shared|sibling, kind) configuration is executed on the real queues and judged; plus seeded 'emptied by thieves, then idle' histories. Complete over the stated grid, nothing beyond it.",
            "Sequential histories; the 61 bound is read for an item alone in the shared queue.", "DESIGN.md §3 C06", "wl-pure/queues"),
    "C25": ("exploration", "runtime monitoring: model-based oracle with drop-counting values over seeded histories, natively, under Miri (leak checker on) and on real coroutines",
            "Every return value of put/get/get_mut/remove is compared with a per-storage HashMap model, and after the owner is dropped every value must have been dropped exactly once; thousands of seeded histories natively, dozens under Miri (UAF/double free/leak as independent witness), plus real coroutines.",
            "Keys are used with one value type each (type-erased API by design).", "DESIGN.md §3 C25", "wl-pure/local"),
    "C26": ("exploration", "runtime monitoring: address-agreement oracle over barrier-released first users; forked fresh processes for the factory's own first use; Miri many-seeds and TSan as race detectors",
            "All threads racing on the first use of a bean name (and of the factory itself, one fresh process per trial) must be handed one instance that later lookups also return. Thousands of races sampled natively, Miri explores small cases under many scheduler seeds and flags data races; sampling only.",
            "Sampled schedules; users of singletons are assumed to go through BeanFactory::get_or_default.", "DESIGN.md §3 C26", "wl-pure/beans"),
    "C07": ("exploration", "runtime monitoring: online automaton over Listener events (trace specification of the documented state graph) on generated bodies and resume sequences + script-aware oracle (Cancelled only if the body itself asked); ASan overlay in thorough",
            "A recording listener feeds an automaton that checks continuity, documented edges (incl. 'once due'), exactly-one matching callback with payload, state()==last report, silence after terminal states and stored-outcome resumes, over thousands of generated body x resume-sequence programs (direct and via Scheduler).",
            "A body that ends while parked in a Syscall state has no documented edge; the oracle only demands that nothing illegal is reported.", "DESIGN.md §3 C07", "wl-core/coro"),
    "C08": ("exploration", "runtime monitoring: unique-value in/out sequence oracle across the coroutine boundary; ASan overlay in thorough",
            "Unique 64-bit payloads both ways over bodies with 0-64 suspend points, every ending (return, panic with &str / formatted String / non-string payload), optional panicking listener and a sibling parked in a delay; checks order, exactly-once completion, message fidelity, no unwinding into the resumer.",
            "Single thread; payloads without a string have no message to carry.", "DESIGN.md §3 C08", "wl-core/coro"),
    "C09": ("exploration", "runtime monitoring: per-yield isolation oracle (no carry-over model) over interleavings of 2-6 coroutines on one thread",
            "Each yield's reported wake-up time / cancellation is compared with what that yield requested, over thousands of seeded interleavings that include requests issued in every Syscall sub-state (Executing, Suspend, and Timeout/Callback of a call that was woken and waits again) - what hooked waits and the cancel signal handler do.",
            "Requests are thread-local, so one thread per history.", "DESIGN.md §3 C09", "wl-core/coro"),
    "C10": ("exploration", "runtime monitoring: offline checker over resumption stamps and result maps (exactly-once results, delay lower/upper bound in passes, silence after cancel)",
            "Hundreds to thousands of seeded schedules (1-40 coroutines; plain suspends, delays, waits parked inside a system call with a timeout the way EventLoop::wait_just parks them, panics, priorities; cancel requests and try_resume callbacks issued between passes, random gaps) judged from body-side stamps (time, pass, wake reason Timeout/Callback) and the scheduler's returned maps.",
            "One Scheduler at a time per process; pass budgets (150 ms) assumed never to be the limiting factor.", "DESIGN.md §3 C10", "wl-core/coro"),
    "C23": ("exploration", "runtime monitoring: in-callback stack-pointer/segment-bounds oracle over deep recursions incl. caught panics; process survival",
            "Inside every growth callback the stack pointer is located in a known segment and the room below it compared with the red zone; stack_infos() equality before/after (also after a caught panic); recursion of several stack sizes must survive, in coroutines and on plain threads.",
            "The runtime counts the guard page as room (oracle allows one page + 3 KiB); workload frames stay <= red_zone/4.", "DESIGN.md §3 C23", "wl-core/stack"),
    "C24": ("exploration", "runtime monitoring: fault injection inside coroutines (null/wild access, runaway recursion, faults with the stack pointer moved by inline asm) with result/message oracle and survival of siblings",
            "Each fault kind after 0-5 suspends must yield Error with the message the stack-pointer position calls for (boundary positions top, top-16, bottom, bottom-16, heap), the coroutine stays failed, healthy coroutines before/after are unaffected, the process survives.",
            "Segments include their guard page; x86-64 Linux only; not under ASan/valgrind.", "DESIGN.md §3 C24", "wl-core/stack"),
    "C01": ("exploration", "runtime monitoring: exactly-once counters per task id + stranded detector with heartbeat probes + per-call CPU watchdog on submitters, one process per configuration",
            "Every task bumps its own atomic counter; after all submitters returned every counter must be 1, judged over a configuration matrix (loops x submitter threads x burst sizes x priorities x bodies x pool sizes). 'Stranded' is restated as bounded progress: nothing new runs for 3 s while heartbeat probes do. Sampling of schedules only.",
            "Sampled schedules; 3 s no-progress window; submit calls judged by CPU time.", "DESIGN.md §3 C01", "wl-core/loops"),
    "C02": ("exploration", "runtime monitoring: per-join result/latency oracle with finish stamps; lost-wakeup window forced through the join:after_first_check pause hook",
            "Each join must return its own task's value or panic message, TimedOut only if the task had not finished, and within 1 s of max(call, finish); configurations over 1-4 loops and 1-16 joiner threads, incl. two-step joins (first join gives up early) and a deterministic schedule that puts the completion between the waiter's check and its registration.",
            "1 s promptness slack vs 3 s timeouts; C-ABI wrappers not driven separately.", "DESIGN.md §3 C02", "wl-core/loops"),
    "C11": ("exploration", "runtime monitoring: live-coroutine registry from the co_new/co_drop hook compared with get_running_size() at quiescent points",
            "After every scheduling pass the reported running size must equal the number of live worker coroutines of the pool and stay <= max; after all work is done or cancelled it returns to the idle level and stop() is prompt. Hundreds of generated task programs with cancel requests and self-cancelling tasks, keep-alive times of 0, 5 ms and 30 s (a stop must not wait for the keep-alive time of idle workers).",
            "min_size 0 only (idle core workers never yield inside a pass without the preemptive feature).", "DESIGN.md §3 C11", "wl-core/pool"),
    "C12": ("exploration", "runtime monitoring: lifecycle oracle over EventLoops::stop racing a submitter, and over standalone pool histories with a waiting thread",
            "stop() success implies every task accepted before it began has run; later submissions are rejected; the state only moves forward; a waiter on a task that never runs is released with an error right after stop instead of sleeping out its own timeout.",
            "One submitting thread at a time at runtime level.", "DESIGN.md §3 C12", "wl-core/loops+pool"),
    "C13": ("exploration", "runtime monitoring: start/end stamps + join outcomes around a cancelled target in each phase; cancel:before_signal pause hook forces the lookup/signal window",
            "Cancelling a queued / running / suspended task must leave every other task untouched (all start, end and join with their own value), a queued target never starts and its waiter is settled. The lookup-then-signal window is forced deterministically; a late cancel of a detached target that has already finished must not touch the task its former worker serves now; with two event loops a task cancelled while queued and taken over by the other loop must still settle the waiter blocked on the loop it was submitted to.",
            "Single loop, single submitting thread. One known finding (signal lands on another coroutine).", "DESIGN.md §3 C13", "wl-core/loops"),
    "C14": ("exploration", "runtime monitoring: elapsed-time oracle on CLOCK_MONOTONIC (min of 3 attempts) + native-call differential for invalid arguments, each case able to kill its own process",
            "Every hooked timed wait x context x duration (incl. unit boundaries, 4.4 s overflow probes, maximal values) must not return early and must return within a slack derived from the scheduling noise measured around the case (50 ms + 20x the overshoot of a native 1 ms sleep, more for sliced waits; overloaded machine = inconclusive) on the fastest of three attempts; waits issued right after a recv with its own timeout was completed by data; invalid arguments must answer like the native call. A few scenarios run through the real LD_PRELOAD interposition (wl-hook).",
            "Core entry points with real libc underneath for most cases; the dylib's interposed symbols forward to them and are exercised by the wl-hook scenarios.", "DESIGN.md §3 C14", "wl-core/sys"),
    "C15": ("exploration", "runtime monitoring: completion-time ratio oracle (N sleepers finish in ~d, not N*d) + per-call lateness + loop-stall detector fed by an always-runnable sibling + late-arrival latency, gated by an in-process load monitor",
            "N tasks blocked in usleep/nanosleep/poll/select or in recv/send/accept running into the socket timeout must finish within max(2d, d+300 ms+noise) while a computing sibling keeps advancing; the median call returns at most 40 ms late and the loop thread does not sit still between two steps of the runnable sibling (healthy: 0 ms, 0 stalls); a gated burst of 600 sleepers (more than the local queue holds) must start within d/2 of each other; a task submitted while the only worker is parked must not wait for the sleeper.",
            "Core entry points, not the dylib interposition layer.", "DESIGN.md §3 C15", "wl-core/loops"),
    "C16": ("fault_enumeration", "fault injection: scripted kernel through the fn_ptr seam, bounded-exhaustive response scripts x buffer shapes x calls x modes, byte-accounting oracle; plus patterned-stream transcript oracle against the real kernel under real LD_PRELOAD interposition; ASan and memcheck overlays in thorough",
            "Every script of kernel responses up to length 2 (quick) / 3 (thorough) over {partials around buffer boundaries, full, EAGAIN, EINTR, EOF/EPIPE, ECONNRESET, timeout} x 8 buffer shapes x 10 calls x blocking/non-blocking is executed; return value, errno and byte placement are compared with what the scripted kernel moved. Longer scripts and coroutine context are sampled.",
            "The scripted kernel replaces only the transfer; sockets, fcntl, readiness waits and options are real. The interposed scenarios (a task pushing up to 300 000 patterned bytes through every write-family call into a 4 KiB socket buffer and reading an answer in odd pieces through every read-family call) use the real kernel and the hook library built from /repo.", "DESIGN.md §3 C16", "wl-core/sys"),
    "C17": ("fault_enumeration", "fault injection: same scripted kernel, oracle evaluated inside every inner call on the iovec list and element count it is handed; ASan overlay in thorough",
            "Inside each scripted inner call the (pointer,length) list must equal the caller's unfilled remainder and the element count must fit the array; same bounded-exhaustive grid as C16.",
            "Zero-length entries at the frontier may or may not be passed.", "DESIGN.md §3 C17", "wl-core/sys"),
    "C18": ("exploration", "runtime monitoring: real non-blocking sockets (EAGAIN-latency + F_GETFL before/after) for every hooked socket call incl. accept/connect, plus the scripted-kernel grid with a would-block-ends-the-call oracle",
            "A caller-set O_NONBLOCK descriptor with nothing ready must return -1/EAGAIN in < 400 ms (the peer acts only after 700 ms) and every outcome must leave F_GETFL unchanged, in threads and coroutines; the scripted grid adds every partial/error/timeout outcome.",
            "Unix stream / UDP sockets on this kernel.", "DESIGN.md §3 C18", "wl-core/sys"),
    "C19": ("exploration", "runtime monitoring: bounded-exhaustive option/IO/close/reuse histories with a model of the socket's options and process-survival oracle; plus limit-follows-the-live-socket oracle under real LD_PRELOAD interposition (libc close is not interposed)",
            "All histories up to length 4 (quick) / 6 (thorough) over set RCVTIMEO/SNDTIMEO, limit queries, a timed-out hooked recv, close + descriptor reuse; limits must equal the model (cross-checked with getsockopt), the recv must take about the limit, the process must not abort.",
            "Options set through the hooked setsockopt. The interposed scenarios run a task on TCP loopback: timed-out recv about as long as the option, then option cleared or libc close + a new connection reusing the number, next recv must wait for late data (native getsockopt as reference).", "DESIGN.md §3 C19", "wl-core/sys"),
    "C20": ("exploration", "runtime monitoring: wake-latency oracle + resume-by-token observer hook (token, hit/miss) over concurrent readiness waiters",
            "A waiter whose descriptor became ready must return within 1 s of readiness (timeout is 3 s) and the loop must have seen a readiness event carrying its coroutine id; never-ready waiters must not return early; several waits inside one call. Interest histories: descriptors that are waited on in both directions, lose one or all interests (del_read_event/del_write_event/del_event), run into wait timeouts and are handed to fresh coroutines; every wait that is made ready must still be woken by an event with its own id. Duplex socket with a reader and a writer coroutine (known finding).",
            "epoll backend, 64-bit.", "DESIGN.md §3 C20", "wl-core/loops"),
    "C21": ("exploration", "runtime monitoring: model of outstanding interest vs the kernel's registrations read from /proc/self/fdinfo after every operation",
            "Seeded histories of wait/del/shutdown/close+reuse over 3 sockets, from threads and tasks, 1 and 2 loops; after each step the union of epoll registrations must equal the model. Multi-loop disagreements are known findings.",
            "fdinfo is ground truth; 'outstanding' = added and not yet removed.", "DESIGN.md §3 C21", "wl-core/loops"),
    "C22": ("exploration", "runtime monitoring under the preemptive build: CPU-time bound on busy coroutines before siblings run, no suspension inside a system call (state log + time stamps of an equal-priority sibling), checksum equality with a plain-thread reference, survival with many scheduling threads",
            "Busy chains must be preempted (siblings run before 500 ms CPU) also after a short system call or an early yield and while a second thread runs coroutines of its own; a coroutine in a Syscall state must not be suspended, also when it enters the call just as its slice ends (150-round race variant with an in-call intrusion detector); preempted computations must produce reference results; with 4-12 scheduling threads the process dies (known finding).",
            "Linux x86-64 SIGURG preemption; cases without an observed preemption are inconclusive.", "DESIGN.md §3 C22", "wl-core/preempt"),
    "C27": ("exploration", "runtime monitoring under the io_uring build: unique-content own-result oracle per call, expected-errno oracle for negative completions, lost-completion detector; uring:after_submit pause hook forces the submit/register window",
            "Concurrent coroutine and thread callers each check that every pwrite/pread/send/recv/mkdirat returns its own byte count, data or errno; a caller still blocked 5 s after the last completion is a lost completion. A receive that waits for late data right after a completed send with a send timeout must not be ended by what that send left behind; a caller whose first call ran into its own SO_RCVTIMEO must still get own results afterwards (known finding: abort).",
            "Kernel 6.18 io_uring; positional reads on sockets are excluded (io_uring semantics differ).", "DESIGN.md §3 C27", "wl-core/uring"),
    "C28": ("exploration", "runtime monitoring: arithmetic oracles over boundary tables + seeded inputs; step-bounded execution of get_slices on a helper thread",
            "get_timeout_time must lie in [now+d] and saturate exactly when now+d overflows; get_slices pieces must each fit, be non-empty, sum to the total and count ceil(total/slice) without looping; zero socket limit means unlimited, limits at the edge of u64 nanoseconds are exact or saturate.",
            "Wall clock does not jump during a case.", "DESIGN.md §3 C28", "wl-core/sys"),
}

NOT_YET = "check not built yet in this session (work in progress; see DESIGN.md §3 for the planned monitor)"


def main():
    props = [json.loads(l) for l in open(os.path.join(VERIF, "properties.jsonl"))]
    checks = []
    na = []
    for p in props:
        pid = p["id"]
        if pid in CHECKS:
            level, tech, text, note, ref, engine = CHECKS[pid]
            checks.append({
                "property_id": pid,
                "quick_cmd": f"./check {pid} --tier quick",
                "thorough_cmd": f"./check {pid} --tier thorough",
                "evidence_file": f"/verif/evidence/{pid}.json",
                "replay_cmd_template": f"./check {pid} --replay {{path}}",
                "engine": engine,
                "level_claimed": {"category": level, "text": text, "design_ref": ref},
                "level_note": note,
                "technique": tech,
            })
        else:
            na.append({"property_id": pid, "reason": NA.get(pid, NOT_YET)})
    hooks_commits = subprocess.run(["git", "-C", "/repo", "log", "--format=%H %s"], capture_output=True, text=True).stdout.splitlines()
    hook_shas = [l.split()[0] for l in hooks_commits if "verif" in l.lower() and not l.split(" ", 1)[1].startswith("fix:")]
    m = {
        "version": 1,
        "setup_cmd": "./setup.sh",
        "hooks": {
            "guard": "cargo feature `verif` of open-coroutine-core (off by default)",
            "enable": "workload crates depend on open-coroutine-core with features = [\"verif\", ...]; nothing else changes",
            "baseline_off_cmd": "cd /repo && cargo nextest run --workspace --no-fail-fast --test-threads 8 --offline || cargo test --workspace --no-fail-fast --offline",
            "source_commits": hook_shas,
            "add_only": True,
        },
        "engines": ENGINES,
        "checks": checks,
        "not_applicable": na,
        "notes": "Technique family: runtime monitoring and sanitizers. Every check rebuilds its workload binaries against /repo's working tree (path dependencies / #[path] includes), runs seeded workloads under online/offline oracles, and writes /verif/evidence/<id>.json. Verdicts are three-valued; exit 2 = inconclusive/build failure (never reported as a violation). Known findings: /verif/known_findings.json.",
    }
    json.dump(m, open(os.path.join(VERIF, "MANIFEST.json"), "w"), indent=1)
    print(f"MANIFEST.json: {len(checks)} checks, {len(na)} not_applicable")


NA = {}

ENGINES = [
    {"name": "wl-pure/queues", "path": "/verif/wl-pure", "serves_properties": ["C03", "C04", "C05", "C06", "C25", "C26"],
     "kind_free_text": "Rust workload binary over the real work_steal.rs/ordered_work_steal.rs (#[path] include), run natively, under Miri and under TSan; online oracles"},
    {"name": "wl-core", "path": "/verif/wl-core", "serves_properties": ["C01", "C02", "C05", "C07", "C08", "C09", "C10", "C11", "C12", "C13", "C14", "C15", "C16", "C17", "C18", "C19", "C20", "C21", "C22", "C23", "C24", "C25", "C27", "C28"],
     "kind_free_text": "Rust workload binaries linked against /repo/core (path dependency, feature verif): generated programs + online oracles; rebuilt under ASan for thorough tiers"},
    {"name": "wl-hook", "path": "/verif/wl-hook", "serves_properties": ["C02", "C14", "C15", "C18", "C23"],
     "kind_free_text": "Rust binary run under LD_PRELOAD of the real open-coroutine-hook cdylib built from /repo: plain libc calls and dlsym'd C-ABI entry points (init, task create/join/timeout_join, maybe_grow_stack) with the same timing/outcome oracles; the same scenarios run under valgrind memcheck in the thorough tier"},
    {"name": "driver", "path": "/verif/check", "serves_properties": [],
     "kind_free_text": "python3 driver: builds, fans seeded case ranges out over processes, resumes after crashes/hangs, matches signatures against known_findings.json, writes evidence/replay"},
]

if __name__ == "__main__":
    main()
