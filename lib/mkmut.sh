#!/bin/bash
# mkmut.sh <ID>...: create scratch worktree + prompt for a mutation agent
for id in "$@"; do
mkdir -p /tmp/mut; git -C /repo worktree add --detach /tmp/mut/$id HEAD >/dev/null 2>&1
python3 - "$id" <<'PY'
import sys,json
i=sys.argv[1]
props={json.loads(l)['id']:json.loads(l) for l in open('/verif/properties.jsonl')}
p=props[i]
for k in ('added_in_round','source'): p.pop(k,None)
t=open('/verif/lib/PROMPT.tmpl').read()
open(f'/tmp/mut/{i}.prompt','w').write(t.replace('@ID@',i).replace('@PROPERTY@',json.dumps(p,indent=1)))
PY
done
git -C /repo worktree list | wc -l
