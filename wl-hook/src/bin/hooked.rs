//! Workloads under real LD_PRELOAD interposition of the hook dylib (C02 C-ABI join mapping, C14/C15 hooked
//! sleeps, C18 non-blocking sockets, C23 maybe_grow_stack through the C ABI, C16 byte accounting of interposed send/recv families
//! inside a task, C19 socket time limits across close + descriptor reuse inside a task). One case per process.
//! All verdict output goes to --out (the dylib logs to stdout).
#![allow(clippy::too_many_lines)]
use mon::{case_range, jobj, Args, Out, Rng, Verdict, J};
use std::sync::atomic::{AtomicU64, AtomicUsize, Ordering};
use std::time::{Duration, Instant};

#[repr(C)]
#[derive(Clone, Copy)]
struct Config {
    event_loop_size: usize,
    stack_size: usize,
    min_size: usize,
    max_size: usize,
    keep_alive_time: u64,
    min_memory_count: usize,
    memory_keep_alive_time: u64,
    hook: bool,
}

#[repr(C)]
#[derive(Clone, Copy)]
struct JoinHandle {
    event_loop: usize,
    task_id: u64,
}

type TaskFn = extern "C" fn(usize) -> usize;

struct Api {
    init: unsafe extern "C" fn(Config) -> libc::c_int,
    task_crate: unsafe extern "C" fn(TaskFn, usize, libc::c_longlong) -> JoinHandle,
    task_join: unsafe extern "C" fn(&JoinHandle) -> libc::c_longlong,
    task_timeout_join: unsafe extern "C" fn(&JoinHandle, u64) -> libc::c_longlong,
    maybe_grow_stack: unsafe extern "C" fn(usize, usize, TaskFn, usize) -> libc::c_longlong,
}

fn sym(name: &str) -> *mut libc::c_void {
    let c = std::ffi::CString::new(name).unwrap();
    let p = unsafe { libc::dlsym(libc::RTLD_DEFAULT, c.as_ptr()) };
    assert!(!p.is_null(), "symbol {name} not found: is the hook dylib preloaded?");
    p
}

fn api() -> Api {
    unsafe {
        Api {
            init: std::mem::transmute(sym("open_coroutine_init")),
            task_crate: std::mem::transmute(sym("task_crate")),
            task_join: std::mem::transmute(sym("task_join")),
            task_timeout_join: std::mem::transmute(sym("task_timeout_join")),
            maybe_grow_stack: std::mem::transmute(sym("maybe_grow_stack")),
        }
    }
}

fn mono_ns() -> u64 {
    let mut ts = libc::timespec { tv_sec: 0, tv_nsec: 0 };
    unsafe { libc::clock_gettime(libc::CLOCK_MONOTONIC, &mut ts) };
    ts.tv_sec as u64 * 1_000_000_000 + ts.tv_nsec as u64
}

fn thread_cpu_ns() -> u64 {
    let mut ts = libc::timespec { tv_sec: 0, tv_nsec: 0 };
    unsafe { libc::clock_gettime(libc::CLOCK_THREAD_CPUTIME_ID, &mut ts) };
    ts.tv_sec as u64 * 1_000_000_000 + ts.tv_nsec as u64
}

/// wall time / CPU time of a 20 ms CPU spin: > 2.5 means the machine is starving its threads right now
fn overloaded() -> bool {
    let mut worst = 0.0f64;
    for _ in 0..2 {
        let (c0, w0) = (thread_cpu_ns(), mono_ns());
        let mut x = 0u64;
        while thread_cpu_ns() - c0 < 20_000_000 {
            for _ in 0..2000 {
                x = x.wrapping_mul(6_364_136_223_846_793_005).wrapping_add(1);
            }
            std::hint::black_box(x);
        }
        worst = worst.max((mono_ns() - w0) as f64 / (thread_cpu_ns() - c0).max(1) as f64);
    }
    worst > 2.5
}

static DONE: AtomicUsize = AtomicUsize::new(0);
static SLEEP_US: AtomicU64 = AtomicU64::new(0);
static LAST_ELAPSED: AtomicU64 = AtomicU64::new(0);

extern "C" fn sleeper(kind: usize) -> usize {
    let us = SLEEP_US.load(Ordering::SeqCst);
    let t0 = mono_ns();
    unsafe {
        match kind % 3 {
            0 => {
                libc::usleep(us as u32);
            }
            1 => {
                let rq = libc::timespec { tv_sec: (us / 1_000_000) as libc::time_t, tv_nsec: ((us % 1_000_000) * 1000) as libc::c_long };
                libc::nanosleep(&rq, std::ptr::null_mut());
            }
            _ => {
                let mut tv = libc::timeval { tv_sec: (us / 1_000_000) as libc::time_t, tv_usec: (us % 1_000_000) as libc::suseconds_t };
                libc::select(0, std::ptr::null_mut(), std::ptr::null_mut(), std::ptr::null_mut(), &mut tv);
            }
        }
    }
    LAST_ELAPSED.fetch_max(mono_ns() - t0, Ordering::SeqCst);
    DONE.fetch_add(1, Ordering::SeqCst);
    kind + 1
}

extern "C" fn quick(v: usize) -> usize {
    v
}

extern "C" fn slow(v: usize) -> usize {
    unsafe { libc::usleep(150_000) };
    v
}

extern "C" fn recurse(depth: usize) -> usize {
    // every level asks the runtime for room through the C ABI
    let mut pad = [0u8; 2048];
    pad[depth % 2048] = depth as u8;
    std::hint::black_box(&mut pad);
    if depth == 0 {
        return 1;
    }
    let a = api();
    let r = unsafe { (a.maybe_grow_stack)(0, 0, recurse, depth - 1) };
    (r as usize) + 1 + usize::from(pad[0] == 255 && depth == usize::MAX)
}


// ---- C16 / C19 under interposition: the task body talks to a plain helper thread through statics ----
static IO_KIND: AtomicUsize = AtomicUsize::new(0);
static IO_LEN: AtomicUsize = AtomicUsize::new(0);
static IO_BACK: AtomicUsize = AtomicUsize::new(0);
static IO_SEED: AtomicU64 = AtomicU64::new(0);
static IO_CALLS: AtomicUsize = AtomicUsize::new(0);
static IO_PARTIAL: AtomicUsize = AtomicUsize::new(0);
static REPORT: std::sync::Mutex<Vec<(String, String)>> = std::sync::Mutex::new(Vec::new());

fn pat(seed: u64, i: usize) -> u8 {
    let mut x = seed ^ (i as u64).wrapping_mul(0x9E37_79B9_7F4A_7C15);
    x ^= x >> 29;
    x = x.wrapping_mul(0xBF58_476D_1CE4_E5B9);
    (x >> 32) as u8
}

fn report(sig: &str, detail: String) {
    REPORT.lock().unwrap().push((sig.to_string(), detail));
}

fn errno() -> i32 {
    std::io::Error::last_os_error().raw_os_error().unwrap_or(0)
}

/// one write-family call through the interposed libc symbol
unsafe fn wr(kind: usize, fd: i32, b: &[u8]) -> isize {
    match kind % 5 {
        0 => libc::send(fd, b.as_ptr().cast(), b.len(), 0),
        1 => libc::write(fd, b.as_ptr().cast(), b.len()),
        2 => {
            let (a, rest) = b.split_at(b.len() / 3);
            let (c, d) = rest.split_at(rest.len() / 2);
            let iov = [libc::iovec { iov_base: a.as_ptr() as *mut _, iov_len: a.len() }, libc::iovec { iov_base: c.as_ptr() as *mut _, iov_len: c.len() }, libc::iovec { iov_base: d.as_ptr() as *mut _, iov_len: d.len() }];
            libc::writev(fd, iov.as_ptr(), 3)
        }
        3 => {
            let (a, c) = b.split_at(b.len() / 2);
            let mut iov = [libc::iovec { iov_base: a.as_ptr() as *mut _, iov_len: a.len() }, libc::iovec { iov_base: c.as_ptr() as *mut _, iov_len: c.len() }];
            let mut m: libc::msghdr = std::mem::zeroed();
            m.msg_iov = iov.as_mut_ptr();
            m.msg_iovlen = 2;
            libc::sendmsg(fd, &m, 0)
        }
        _ => libc::sendto(fd, b.as_ptr().cast(), b.len(), 0, std::ptr::null(), 0),
    }
}

/// one read-family call through the interposed libc symbol; scattered buffers are gathered back into `b`
unsafe fn rd(kind: usize, fd: i32, b: &mut [u8]) -> isize {
    match kind % 5 {
        0 => libc::recv(fd, b.as_mut_ptr().cast(), b.len(), 0),
        1 => libc::read(fd, b.as_mut_ptr().cast(), b.len()),
        2 => {
            let n = b.len();
            let (a, c) = b.split_at_mut(n / 3);
            let iov = [libc::iovec { iov_base: a.as_mut_ptr().cast(), iov_len: a.len() }, libc::iovec { iov_base: c.as_mut_ptr().cast(), iov_len: c.len() }];
            libc::readv(fd, iov.as_ptr(), 2)
        }
        3 => {
            let n = b.len();
            let (a, c) = b.split_at_mut(n / 2);
            let mut iov = [libc::iovec { iov_base: a.as_mut_ptr().cast(), iov_len: a.len() }, libc::iovec { iov_base: c.as_mut_ptr().cast(), iov_len: c.len() }];
            let mut m: libc::msghdr = std::mem::zeroed();
            m.msg_iov = iov.as_mut_ptr();
            m.msg_iovlen = 2;
            libc::recvmsg(fd, &mut m, 0)
        }
        _ => libc::recvfrom(fd, b.as_mut_ptr().cast(), b.len(), 0, std::ptr::null_mut(), std::ptr::null_mut()),
    }
}

const WR_NAMES: [&str; 5] = ["send", "write", "writev", "sendmsg", "sendto"];
const RD_NAMES: [&str; 5] = ["recv", "read", "readv", "recvmsg", "recvfrom"];

/// C16 task body: push IO_LEN patterned bytes through a small socket buffer, then read IO_BACK bytes that arrive in pieces
extern "C" fn io_task(_: usize) -> usize {
    let (kind, len, back, seed) = (IO_KIND.load(Ordering::SeqCst), IO_LEN.load(Ordering::SeqCst), IO_BACK.load(Ordering::SeqCst), IO_SEED.load(Ordering::SeqCst));
    let mut sv = [0; 2];
    assert_eq!(0, unsafe { libc::socketpair(libc::AF_UNIX, libc::SOCK_STREAM, 0, sv.as_mut_ptr()) });
    let small: libc::c_int = 4096;
    unsafe { libc::setsockopt(sv[0], libc::SOL_SOCKET, libc::SO_SNDBUF, (&raw const small).cast(), 4) };
    let peer = sv[1];
    let helper = std::thread::spawn(move || {
        // slow native reader: the transcript the kernel really delivered
        let mut got = 0usize;
        let mut chunk = vec![0u8; 3001];
        let mut bad: Option<String> = None;
        while got < len {
            let r = unsafe { libc::recv(peer, chunk.as_mut_ptr().cast(), chunk.len().min(len - got), 0) };
            if r <= 0 {
                bad = Some(format!("peer saw end/error ({r}, errno {}) after {got} of {len} bytes", errno()));
                break;
            }
            for (j, byte) in chunk[..r as usize].iter().enumerate() {
                if *byte != pat(seed, got + j) && bad.is_none() {
                    bad = Some(format!("stream byte {} differs from the caller's data (a byte was skipped or sent twice)", got + j));
                }
            }
            got += r as usize;
            if got % 5 == 0 {
                std::thread::sleep(Duration::from_micros(300));
            }
        }
        // then answer in pieces of odd sizes with pauses
        let mut sent = 0usize;
        let mut step = 1usize;
        while sent < back {
            let n = (step * 37 % 1500 + 1).min(back - sent);
            let piece: Vec<u8> = (0..n).map(|j| pat(seed ^ 0xABCD, sent + j)).collect();
            let r = unsafe { libc::send(peer, piece.as_ptr().cast(), n, 0) };
            if r <= 0 {
                break;
            }
            sent += r as usize;
            step += 1;
            if step % 3 == 0 {
                std::thread::sleep(Duration::from_millis(2));
            }
        }
        bad
    });
    let data: Vec<u8> = (0..len).map(|i| pat(seed, i)).collect();
    let mut off = 0usize;
    while off < len {
        let r = unsafe { wr(kind, sv[0], &data[off..]) };
        IO_CALLS.fetch_add(1, Ordering::SeqCst);
        if r < 0 {
            report(&format!("C16/interposed/{}/failed-on-a-healthy-socket", WR_NAMES[kind % 5]), format!("returned {r} errno {} at offset {off} of {len}", errno()));
            break;
        }
        if r as usize > len - off {
            report(&format!("C16/interposed/{}/returns-more-than-requested", WR_NAMES[kind % 5]), format!("returned {r} for {} bytes", len - off));
            break;
        }
        if (r as usize) < len - off {
            IO_PARTIAL.fetch_add(1, Ordering::SeqCst);
        }
        off += r as usize;
    }
    // read side: every return value must be the number of next-in-stream bytes now in the buffer
    let mut got = 0usize;
    let mut buf = vec![0xEEu8; 2048 + 2];
    while got < back {
        let want = (2048usize).min(back - got);
        buf.iter_mut().for_each(|b| *b = 0xEE);
        let r = unsafe { rd(kind / 5, sv[0], &mut buf[1..=want]) };
        IO_CALLS.fetch_add(1, Ordering::SeqCst);
        if r <= 0 {
            report(&format!("C16/interposed/{}/failed-or-ended-on-a-healthy-socket", RD_NAMES[kind / 5 % 5]), format!("returned {r} errno {} after {got} of {back}", errno()));
            break;
        }
        let r = r as usize;
        if r > want || buf[0] != 0xEE || buf[want + 1] != 0xEE {
            report(&format!("C16/interposed/{}/wrote-outside-the-buffer", RD_NAMES[kind / 5 % 5]), format!("returned {r} for a {want}-byte buffer"));
            break;
        }
        if r < want {
            IO_PARTIAL.fetch_add(1, Ordering::SeqCst);
        }
        if let Some(j) = (0..r).find(|j| buf[1 + j] != pat(seed ^ 0xABCD, got + j)) {
            report(&format!("C16/interposed/{}/buffer-is-not-the-next-bytes-of-the-stream", RD_NAMES[kind / 5 % 5]), format!("byte {j} of a {r}-byte return at stream offset {got}"));
            break;
        }
        if let Some(j) = (r..want).find(|j| buf[1 + j] != 0xEE) {
            report(&format!("C16/interposed/{}/returns-less-than-moved", RD_NAMES[kind / 5 % 5]), format!("returned {r} but byte {j} of the buffer was written"));
            break;
        }
        got += r;
    }
    unsafe { libc::shutdown(sv[0], libc::SHUT_RDWR) };
    if let Ok(Some(b)) = helper.join() {
        if REPORT.lock().unwrap().is_empty() {
            report(&format!("C16/interposed/{}/transcript-differs-from-callers-data", WR_NAMES[kind % 5]), b);
        }
    }
    unsafe {
        libc::close(sv[0]);
        libc::close(sv[1]);
    }
    off + got
}

static LATE_WRITE_FD: std::sync::atomic::AtomicI32 = std::sync::atomic::AtomicI32::new(-1);
static REUSED: AtomicUsize = AtomicUsize::new(0);
static ROUNDS: AtomicUsize = AtomicUsize::new(0);

unsafe fn tcp_pair(listener: i32, addr: &libc::sockaddr_in) -> (i32, i32) {
    let c = libc::socket(libc::AF_INET, libc::SOCK_STREAM, 0);
    assert!(c >= 0);
    assert_eq!(0, libc::connect(c, std::ptr::from_ref(addr).cast(), 16), "connect: {}", errno());
    let s = libc::accept(listener, std::ptr::null_mut(), std::ptr::null_mut());
    assert!(s >= 0, "accept: {}", errno());
    (c, s)
}

unsafe fn set_rcvtimeo(fd: i32, ms: u64) {
    let tv = libc::timeval { tv_sec: (ms / 1000) as libc::time_t, tv_usec: ((ms % 1000) * 1000) as libc::suseconds_t };
    assert_eq!(0, libc::setsockopt(fd, libc::SOL_SOCKET, libc::SO_RCVTIMEO, (&raw const tv).cast(), 16));
}

unsafe fn native_rcvtimeo_ms(fd: i32) -> u64 {
    let mut tv: libc::timeval = std::mem::zeroed();
    let mut l: libc::socklen_t = 16;
    libc::getsockopt(fd, libc::SOL_SOCKET, libc::SO_RCVTIMEO, (&raw mut tv).cast(), &raw mut l);
    tv.tv_sec as u64 * 1000 + tv.tv_usec as u64 / 1000
}

/// C19 task body: option set -> timed-out receive -> (clear | close + reuse of the number) -> receive that must wait for late data
extern "C" fn limit_task(variant: usize) -> usize {
    unsafe {
        let listener = libc::socket(libc::AF_INET, libc::SOCK_STREAM, 0);
        let mut addr: libc::sockaddr_in = std::mem::zeroed();
        addr.sin_family = libc::AF_INET as _;
        addr.sin_addr.s_addr = u32::from_ne_bytes([127, 0, 0, 1]);
        assert_eq!(0, libc::bind(listener, (&raw const addr).cast(), 16));
        assert_eq!(0, libc::listen(listener, 8));
        let mut l: libc::socklen_t = 16;
        libc::getsockname(listener, (&raw mut addr).cast(), &raw mut l);
        let mut b = [0u8; 8];
        for round in 0..3usize {
            let t_ms = [20u64, 40, 60][(variant + round) % 3];
            let (c, s) = tcp_pair(listener, &addr);
            set_rcvtimeo(s, t_ms);
            let t0 = mono_ns();
            let r = libc::recv(s, b.as_mut_ptr().cast(), 8, 0);
            let (e, el) = (errno(), (mono_ns() - t0) / 1_000_000);
            if r != -1 || !(e == libc::EAGAIN || e == libc::EWOULDBLOCK || e == libc::ETIMEDOUT) {
                report("C19/interposed/timed-receive-on-empty-socket-did-not-time-out", format!("limit {t_ms} ms: returned {r} errno {e} after {el} ms"));
            } else if el + 1 < t_ms {
                report("C19/interposed/limit-shorter-than-option", format!("limit {t_ms} ms: gave up after {el} ms"));
            } else if el > t_ms + 400 {
                report("C19/interposed/limit-longer-than-option/returns-late", format!("limit {t_ms} ms: gave up after {el} ms"));
            }
            // second half: the descriptor that must now wait without a limit
            let (c2, s2) = if (variant + round) % 2 == 0 {
                // cleared on the same socket
                set_rcvtimeo(s, 0);
                (c, s)
            } else {
                // closed; a new connection takes the lowest free numbers
                libc::close(s);
                libc::close(c);
                let (c2, s2) = tcp_pair(listener, &addr);
                if s2 == s || c2 == s {
                    REUSED.fetch_add(1, Ordering::SeqCst);
                }
                // receive on whichever end carries the old accepted number
                if c2 == s { (s2, c2) } else { (c2, s2) }
            };
            let native = native_rcvtimeo_ms(s2);
            LATE_WRITE_FD.store(c2, Ordering::SeqCst);
            let t0 = mono_ns();
            let r = libc::recv(s2, b.as_mut_ptr().cast(), 8, 0);
            let (e, el) = (errno(), (mono_ns() - t0) / 1_000_000);
            while LATE_WRITE_FD.load(Ordering::SeqCst) != -1 {
                libc::usleep(1000);
            }
            let how = if (variant + round) % 2 == 0 { "option-cleared-to-zero" } else { "descriptor-number-reused-after-close" };
            if native != 0 {
                report("harness/kernel-option-not-zero", format!("{native}"));
            } else if r == -1 && el < 140 {
                report(&format!("C19/interposed/stale-limit-applied/{how}"), format!("socket has no receive limit (getsockopt: 0) but the interposed recv gave up after {el} ms with errno {e}; earlier limit on that number: {t_ms} ms"));
            } else if r != 4 {
                report(&format!("C19/interposed/unlimited-receive-wrong-result/{how}"), format!("returned {r} errno {e} after {el} ms, expected the 4 bytes written after 150 ms"));
            }
            ROUNDS.fetch_add(1, Ordering::SeqCst);
            libc::close(s2);
            libc::close(c2);
        }
        libc::close(listener);
    }
    7
}

fn main() {
    let args = Args::parse();
    let out = Out::open(&args);
    let seed = args.u64("seed", 1);
    let (case, _) = case_range(&args, 1);
    let mut rng = Rng::for_case(seed ^ 0x4004, case);
    let a = api();
    let scenario = case % 7;
    let hook_everywhere = scenario == 3 || scenario == 1; // Config.hook: apply the hook on plain threads too
    let cfg = Config { event_loop_size: 1, stack_size: 128 * 1024, min_size: 0, max_size: 64, keep_alive_time: 0, min_memory_count: 0, memory_keep_alive_time: 0, hook: hook_everywhere };
    let mut viol: Option<(String, String)> = None;
    let obs;
    let fp;
    match scenario {
        0 => {
            // C15 under real interposition: N tasks blocking in libc sleeps on one loop
            let n = *rng.pick(&[6usize, 12, 24]);
            let d_ms = *rng.pick(&[50u64, 200]);
            out.begin(case, jobj! {"scenario" => "N tasks call libc usleep/nanosleep/select (interposed by the preloaded hook) on one event loop", "tasks" => n, "each_ms" => d_ms});
            assert_eq!(0, unsafe { (a.init)(cfg) });
            SLEEP_US.store(d_ms * 1000, Ordering::SeqCst);
            let t0 = Instant::now();
            let hs: Vec<JoinHandle> = (0..n).map(|i| unsafe { (a.task_crate)(sleeper, i, 0) }).collect();
            let mut bad_join = None;
            for (i, h) in hs.iter().enumerate() {
                let r = unsafe { (a.task_timeout_join)(h, 20_000_000_000) };
                if r != (i + 1) as i64 {
                    bad_join = Some(format!("task {i}: task_timeout_join returned {r}, expected {}", i + 1));
                }
            }
            let total = t0.elapsed().as_millis() as u64;
            let bound = (2 * d_ms).max(d_ms + 300);
            obs = jobj! {"all_joined_after_ms" => total, "bound_ms" => bound, "serial_would_need_ms" => n as u64 * d_ms, "longest_single_sleep_ms" => LAST_ELAPSED.load(Ordering::SeqCst) / 1_000_000};
            fp = format!("0|{n}|{d_ms}");
            if let Some(b) = bad_join {
                viol = Some(("C02/c-abi/join-returned-wrong-value".into(), b));
            } else if total > bound.max(n as u64 * d_ms / 2) {
                viol = Some(("C15/interposed/blocked-coroutines-ran-one-after-another".into(), format!("{n} tasks sleeping {d_ms} ms each were all joined after {total} ms (bound {bound} ms)")));
            } else if LAST_ELAPSED.load(Ordering::SeqCst) + 1_000_000 < d_ms * 1_000_000 {
                viol = Some(("C14/interposed/sleep-returned-early".into(), format!("longest sleep {} ns for a request of {} ms", LAST_ELAPSED.load(Ordering::SeqCst), d_ms)));
            }
        }
        1 => {
            // C14 under interposition on a plain thread (Config.hook = true): durations honoured
            let us = *rng.pick(&[0u64, 1000, 20_000, 100_000]);
            out.begin(case, jobj! {"scenario" => "plain thread with hook=true: libc usleep/nanosleep/select are interposed and must honour the timeout", "microseconds" => us});
            assert_eq!(0, unsafe { (a.init)(cfg) });
            SLEEP_US.store(us, Ordering::SeqCst);
            let mut worst_early = 0i64;
            let mut min_late = u64::MAX;
            for kind in 0..3usize {
                let mut best = u64::MAX;
                for _ in 0..3 {
                    let t0 = mono_ns();
                    sleeper(kind);
                    let el = mono_ns() - t0;
                    best = best.min(el);
                    worst_early = worst_early.max(us as i64 * 1000 - el as i64);
                }
                min_late = min_late.min(best);
                if best > us * 1000 + 300_000_000 {
                    viol = Some((format!("C14/interposed/{}/returns-late", ["usleep", "nanosleep", "select"][kind]), format!("fastest of 3 took {best} ns for {us} us")));
                }
            }
            if worst_early > 1_000_000.min(us as i64 * 100) + 20_000 {
                viol = Some(("C14/interposed/returns-early".into(), format!("{worst_early} ns early for {us} us")));
            }
            obs = jobj! {"fastest_ns" => min_late, "requested_us" => us};
            fp = format!("1|{us}");
        }
        2 => {
            // C02 C-ABI mapping: values, zero, timeouts
            out.begin(case, jobj! {"scenario" => "C ABI: task_crate / task_join / task_timeout_join value mapping", "tasks" => 8});
            assert_eq!(0, unsafe { (a.init)(cfg) });
            let mut details = vec![];
            for i in 0..8usize {
                let v = rng.below(1 << 40) as usize + 1;
                let h = unsafe { (a.task_crate)(quick, v, (i % 3) as i64 - 1) };
                let r = if i % 2 == 0 { unsafe { (a.task_join)(&h) } } else { unsafe { (a.task_timeout_join)(&h, 5_000_000_000) } };
                if r != v as i64 {
                    viol = Some(("C02/c-abi/join-returned-wrong-value".into(), format!("task returning {v}: join gave {r}")));
                }
                details.push(r);
            }
            // a slow task joined with a short timeout reports -1, then its real value on a second, patient join
            let h = unsafe { (a.task_crate)(slow, 77, 0) };
            let t0 = Instant::now();
            let first = unsafe { (a.task_timeout_join)(&h, 20_000_000) };
            let first_ms = t0.elapsed().as_millis() as u64;
            let second = unsafe { (a.task_timeout_join)(&h, 5_000_000_000) };
            if first != -1 && first_ms < 140 {
                viol = viol.or(Some(("C02/c-abi/short-timeout-join-wrong".into(), format!("20 ms join on a 150 ms task returned {first} after {first_ms} ms"))));
            } else if first == -1 && first_ms > 2000 {
                viol = viol.or(Some(("C02/c-abi/short-timeout-join-late".into(), format!("20 ms join returned after {first_ms} ms"))));
            } else if second != 77 && first == -1 {
                viol = viol.or(Some(("C02/c-abi/second-join-after-timeout-wrong".into(), format!("patient second join returned {second}, expected 77"))));
            }
            obs = jobj! {"joins" => details.len(), "short_join" => first, "second_join" => second};
            fp = "2".to_string();
        }
        3 => {
            // C18 under interposition: non-blocking recv on a plain thread with hook=true
            out.begin(case, jobj! {"scenario" => "plain thread with hook=true: libc recv/read on a caller-non-blocking empty socket must return EAGAIN at once and keep O_NONBLOCK", "peer_writes_after_ms" => 700});
            assert_eq!(0, unsafe { (a.init)(cfg) });
            let mut sv = [0; 2];
            assert_eq!(0, unsafe { libc::socketpair(libc::AF_UNIX, libc::SOCK_STREAM, 0, sv.as_mut_ptr()) });
            unsafe {
                let fl = libc::fcntl(sv[0], libc::F_GETFL);
                libc::fcntl(sv[0], libc::F_SETFL, fl | libc::O_NONBLOCK);
            }
            let peer = sv[1];
            let helper = std::thread::spawn(move || {
                std::thread::sleep(Duration::from_millis(700));
                let m = [1u8; 4];
                unsafe { libc::write(peer, m.as_ptr().cast(), 4) };
            });
            let fb = unsafe { libc::fcntl(sv[0], libc::F_GETFL) };
            let mut b = [0u8; 8];
            let t0 = Instant::now();
            let r = unsafe { libc::recv(sv[0], b.as_mut_ptr().cast(), 8, 0) };
            let e = std::io::Error::last_os_error().raw_os_error().unwrap_or(0);
            let el = t0.elapsed().as_millis() as u64;
            let fa = unsafe { libc::fcntl(sv[0], libc::F_GETFL) };
            let _ = helper.join();
            obs = jobj! {"returned" => r as i64, "errno" => e, "elapsed_ms" => el, "flags_before" => fb, "flags_after" => fa};
            fp = "3".to_string();
            if fb != fa {
                viol = Some(("C18/interposed/blocking-mode-not-restored".into(), format!("{fb:#x} -> {fa:#x}")));
            } else if el >= 400 {
                viol = Some(("C18/interposed/nonblocking-call-waited-instead-of-EAGAIN".into(), format!("blocked {el} ms, returned {r} errno {e}")));
            } else if !(r == -1 && e == libc::EAGAIN) {
                viol = Some(("C18/interposed/nonblocking-would-block-not-reported-as-EAGAIN".into(), format!("returned {r} errno {e}")));
            }
        }
        5 => {
            // C16 under interposition: byte accounting of the send/recv families inside a task, real kernel, small socket buffer
            let kind = rng.usize(0, 24);
            let len = *rng.pick(&[1usize, 4096, 70_001, 300_000]);
            let back = *rng.pick(&[1usize, 5000, 40_000]);
            out.begin(case, jobj! {"scenario" => "task pushes patterned bytes through the interposed write family into a 4 KiB socket buffer drained slowly by a plain thread, then reads an answer that arrives in odd pieces through the interposed read family", "write_call" => WR_NAMES[kind % 5], "read_call" => RD_NAMES[kind / 5 % 5], "bytes_out" => len, "bytes_back" => back});
            assert_eq!(0, unsafe { (a.init)(cfg) });
            IO_KIND.store(kind, Ordering::SeqCst);
            IO_LEN.store(len, Ordering::SeqCst);
            IO_BACK.store(back, Ordering::SeqCst);
            IO_SEED.store(rng.next_u64(), Ordering::SeqCst);
            let h = unsafe { (a.task_crate)(io_task, 0, 0) };
            let r = unsafe { (a.task_timeout_join)(&h, 40_000_000_000) };
            obs = jobj! {"calls" => IO_CALLS.load(Ordering::SeqCst), "partial_returns" => IO_PARTIAL.load(Ordering::SeqCst), "bytes_accounted" => r, "expected" => len + back};
            fp = format!("5|{kind}|{len}|{back}");
            if let Some(v) = REPORT.lock().unwrap().first().cloned() {
                viol = Some(v);
            } else if r != (len + back) as i64 {
                viol = Some(("C16/interposed/task-did-not-finish-its-transfers".into(), format!("task accounted {r} bytes, expected {}", len + back)));
            }
        }
        6 => {
            // C19 under interposition: limits follow the live socket across clear and close + reuse
            let variant = rng.usize(0, 5);
            out.begin(case, jobj! {"scenario" => "task on TCP loopback: SO_RCVTIMEO set through the interposed setsockopt, timed-out recv, then either the option cleared to 0 or libc close + a new connection reusing the number; the next recv must wait for data written 150 ms later", "variant" => variant});
            assert_eq!(0, unsafe { (a.init)(cfg) });
            let writer = std::thread::spawn(|| loop {
                let fd = LATE_WRITE_FD.load(Ordering::SeqCst);
                if fd == -2 {
                    break;
                }
                if fd >= 0 {
                    std::thread::sleep(Duration::from_millis(150));
                    let m = [9u8; 4];
                    unsafe { libc::send(fd, m.as_ptr().cast(), 4, libc::MSG_NOSIGNAL) };
                    LATE_WRITE_FD.store(-1, Ordering::SeqCst);
                }
                std::thread::sleep(Duration::from_micros(200));
            });
            let h = unsafe { (a.task_crate)(limit_task, variant, 0) };
            let r = unsafe { (a.task_timeout_join)(&h, 30_000_000_000) };
            LATE_WRITE_FD.store(-2, Ordering::SeqCst);
            let _ = writer.join();
            obs = jobj! {"rounds" => ROUNDS.load(Ordering::SeqCst), "numbers_reused" => REUSED.load(Ordering::SeqCst), "task_result" => r};
            fp = format!("6|{variant}");
            if let Some(v) = REPORT.lock().unwrap().first().cloned() {
                viol = Some(v);
            } else if r != 7 {
                viol = Some(("C19/interposed/task-did-not-finish".into(), format!("join returned {r} after {} rounds", ROUNDS.load(Ordering::SeqCst))));
            }
        }
        _ => {
            // C23 through the C ABI: maybe_grow_stack at every level of a deep recursion inside a task and on a thread
            let depth = rng.usize(200, 1500);
            out.begin(case, jobj! {"scenario" => "C ABI maybe_grow_stack at every level of a recursion with 2 KiB frames, on a plain thread with a 256 KiB stack", "depth" => depth});
            assert_eq!(0, unsafe { (a.init)(cfg) });
            let h = std::thread::Builder::new().stack_size(256 * 1024).spawn(move || recurse(depth)).expect("spawn");
            let r = h.join();
            obs = jobj! {"result" => r.as_ref().map(|v| *v as i64).unwrap_or(-1), "expected" => depth + 1};
            fp = format!("4|{}", depth / 300);
            match r {
                Ok(v) if v == depth + 1 => {}
                other => viol = Some(("C23/c-abi/maybe_grow_stack-wrong-result".into(), format!("{other:?}, expected {}", depth + 1))),
            }
        }
    }
    if viol.as_ref().is_some_and(|v| v.0.contains("late") || v.0.contains("one-after-another") || v.0.contains("waited-instead") || v.0.contains("short-timeout-join") || v.0.contains("did-not-finish")) && overloaded() {
        out.end(case, Verdict::Inconclusive, "machine-overloaded-during-timing-case", false, &fp, obs, &viol.map(|v| v.1).unwrap_or_default());
        unsafe { libc::_exit(0) };
    }
    if viol.as_ref().is_some_and(|v| v.0.starts_with("harness/")) {
        let v = viol.unwrap();
        out.end(case, Verdict::Inconclusive, &v.0, false, &fp, obs, &v.1);
        unsafe { libc::_exit(0) };
    }
    match viol {
        Some((sig, d)) => out.end(case, Verdict::Violated, &sig, true, &fp, obs, &d),
        None => out.end(case, Verdict::Held, "", true, &fp, obs, ""),
    }
    let _ = J::Null;
    unsafe { libc::_exit(0) };
}
