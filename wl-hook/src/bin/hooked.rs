//! Workloads under real LD_PRELOAD interposition of the hook dylib (C02 C-ABI join mapping, C14/C15 hooked
//! sleeps, C18 non-blocking sockets, C23 maybe_grow_stack through the C ABI). One case per process.
//! All verdict output goes to --out (the dylib logs to stdout).
#![allow(clippy::too_many_lines)]
use mon::{case_range, jobj, Args, Out, Rng, Verdict, J};
use std::sync::atomic::{AtomicU64, AtomicUsize, Ordering};
use std::time::{Duration, Instant};

#[repr(C)]
#[derive(Clone, Copy)]
struct Config {
    event_loop_size: usize,
    stack_size: usize,
    min_size: usize,
    max_size: usize,
    keep_alive_time: u64,
    min_memory_count: usize,
    memory_keep_alive_time: u64,
    hook: bool,
}

#[repr(C)]
#[derive(Clone, Copy)]
struct JoinHandle {
    event_loop: usize,
    task_id: u64,
}

type TaskFn = extern "C" fn(usize) -> usize;

struct Api {
    init: unsafe extern "C" fn(Config) -> libc::c_int,
    task_crate: unsafe extern "C" fn(TaskFn, usize, libc::c_longlong) -> JoinHandle,
    task_join: unsafe extern "C" fn(&JoinHandle) -> libc::c_longlong,
    task_timeout_join: unsafe extern "C" fn(&JoinHandle, u64) -> libc::c_longlong,
    maybe_grow_stack: unsafe extern "C" fn(usize, usize, TaskFn, usize) -> libc::c_longlong,
}

fn sym(name: &str) -> *mut libc::c_void {
    let c = std::ffi::CString::new(name).unwrap();
    let p = unsafe { libc::dlsym(libc::RTLD_DEFAULT, c.as_ptr()) };
    assert!(!p.is_null(), "symbol {name} not found: is the hook dylib preloaded?");
    p
}

fn api() -> Api {
    unsafe {
        Api {
            init: std::mem::transmute(sym("open_coroutine_init")),
            task_crate: std::mem::transmute(sym("task_crate")),
            task_join: std::mem::transmute(sym("task_join")),
            task_timeout_join: std::mem::transmute(sym("task_timeout_join")),
            maybe_grow_stack: std::mem::transmute(sym("maybe_grow_stack")),
        }
    }
}

fn mono_ns() -> u64 {
    let mut ts = libc::timespec { tv_sec: 0, tv_nsec: 0 };
    unsafe { libc::clock_gettime(libc::CLOCK_MONOTONIC, &mut ts) };
    ts.tv_sec as u64 * 1_000_000_000 + ts.tv_nsec as u64
}

fn thread_cpu_ns() -> u64 {
    let mut ts = libc::timespec { tv_sec: 0, tv_nsec: 0 };
    unsafe { libc::clock_gettime(libc::CLOCK_THREAD_CPUTIME_ID, &mut ts) };
    ts.tv_sec as u64 * 1_000_000_000 + ts.tv_nsec as u64
}

/// wall time / CPU time of a 20 ms CPU spin: > 2.5 means the machine is starving its threads right now
fn overloaded() -> bool {
    let mut worst = 0.0f64;
    for _ in 0..2 {
        let (c0, w0) = (thread_cpu_ns(), mono_ns());
        let mut x = 0u64;
        while thread_cpu_ns() - c0 < 20_000_000 {
            for _ in 0..2000 {
                x = x.wrapping_mul(6_364_136_223_846_793_005).wrapping_add(1);
            }
            std::hint::black_box(x);
        }
        worst = worst.max((mono_ns() - w0) as f64 / (thread_cpu_ns() - c0).max(1) as f64);
    }
    worst > 2.5
}

static DONE: AtomicUsize = AtomicUsize::new(0);
static SLEEP_US: AtomicU64 = AtomicU64::new(0);
static LAST_ELAPSED: AtomicU64 = AtomicU64::new(0);

extern "C" fn sleeper(kind: usize) -> usize {
    let us = SLEEP_US.load(Ordering::SeqCst);
    let t0 = mono_ns();
    unsafe {
        match kind % 3 {
            0 => {
                libc::usleep(us as u32);
            }
            1 => {
                let rq = libc::timespec { tv_sec: (us / 1_000_000) as libc::time_t, tv_nsec: ((us % 1_000_000) * 1000) as libc::c_long };
                libc::nanosleep(&rq, std::ptr::null_mut());
            }
            _ => {
                let mut tv = libc::timeval { tv_sec: (us / 1_000_000) as libc::time_t, tv_usec: (us % 1_000_000) as libc::suseconds_t };
                libc::select(0, std::ptr::null_mut(), std::ptr::null_mut(), std::ptr::null_mut(), &mut tv);
            }
        }
    }
    LAST_ELAPSED.fetch_max(mono_ns() - t0, Ordering::SeqCst);
    DONE.fetch_add(1, Ordering::SeqCst);
    kind + 1
}

extern "C" fn quick(v: usize) -> usize {
    v
}

extern "C" fn slow(v: usize) -> usize {
    unsafe { libc::usleep(150_000) };
    v
}

extern "C" fn recurse(depth: usize) -> usize {
    // every level asks the runtime for room through the C ABI
    let mut pad = [0u8; 2048];
    pad[depth % 2048] = depth as u8;
    std::hint::black_box(&mut pad);
    if depth == 0 {
        return 1;
    }
    let a = api();
    let r = unsafe { (a.maybe_grow_stack)(0, 0, recurse, depth - 1) };
    (r as usize) + 1 + usize::from(pad[0] == 255 && depth == usize::MAX)
}

fn main() {
    let args = Args::parse();
    let out = Out::open(&args);
    let seed = args.u64("seed", 1);
    let (case, _) = case_range(&args, 1);
    let mut rng = Rng::for_case(seed ^ 0x4004, case);
    let a = api();
    let scenario = case % 5;
    let hook_everywhere = scenario == 3 || scenario == 1; // Config.hook: apply the hook on plain threads too
    let cfg = Config { event_loop_size: 1, stack_size: 128 * 1024, min_size: 0, max_size: 64, keep_alive_time: 0, min_memory_count: 0, memory_keep_alive_time: 0, hook: hook_everywhere };
    let mut viol: Option<(String, String)> = None;
    let obs;
    let fp;
    match scenario {
        0 => {
            // C15 under real interposition: N tasks blocking in libc sleeps on one loop
            let n = *rng.pick(&[6usize, 12, 24]);
            let d_ms = *rng.pick(&[50u64, 200]);
            out.begin(case, jobj! {"scenario" => "N tasks call libc usleep/nanosleep/select (interposed by the preloaded hook) on one event loop", "tasks" => n, "each_ms" => d_ms});
            assert_eq!(0, unsafe { (a.init)(cfg) });
            SLEEP_US.store(d_ms * 1000, Ordering::SeqCst);
            let t0 = Instant::now();
            let hs: Vec<JoinHandle> = (0..n).map(|i| unsafe { (a.task_crate)(sleeper, i, 0) }).collect();
            let mut bad_join = None;
            for (i, h) in hs.iter().enumerate() {
                let r = unsafe { (a.task_timeout_join)(h, 20_000_000_000) };
                if r != (i + 1) as i64 {
                    bad_join = Some(format!("task {i}: task_timeout_join returned {r}, expected {}", i + 1));
                }
            }
            let total = t0.elapsed().as_millis() as u64;
            let bound = (2 * d_ms).max(d_ms + 300);
            obs = jobj! {"all_joined_after_ms" => total, "bound_ms" => bound, "serial_would_need_ms" => n as u64 * d_ms, "longest_single_sleep_ms" => LAST_ELAPSED.load(Ordering::SeqCst) / 1_000_000};
            fp = format!("0|{n}|{d_ms}");
            if let Some(b) = bad_join {
                viol = Some(("C02/c-abi/join-returned-wrong-value".into(), b));
            } else if total > bound.max(n as u64 * d_ms / 2) {
                viol = Some(("C15/interposed/blocked-coroutines-ran-one-after-another".into(), format!("{n} tasks sleeping {d_ms} ms each were all joined after {total} ms (bound {bound} ms)")));
            } else if LAST_ELAPSED.load(Ordering::SeqCst) + 1_000_000 < d_ms * 1_000_000 {
                viol = Some(("C14/interposed/sleep-returned-early".into(), format!("longest sleep {} ns for a request of {} ms", LAST_ELAPSED.load(Ordering::SeqCst), d_ms)));
            }
        }
        1 => {
            // C14 under interposition on a plain thread (Config.hook = true): durations honoured
            let us = *rng.pick(&[0u64, 1000, 20_000, 100_000]);
            out.begin(case, jobj! {"scenario" => "plain thread with hook=true: libc usleep/nanosleep/select are interposed and must honour the timeout", "microseconds" => us});
            assert_eq!(0, unsafe { (a.init)(cfg) });
            SLEEP_US.store(us, Ordering::SeqCst);
            let mut worst_early = 0i64;
            let mut min_late = u64::MAX;
            for kind in 0..3usize {
                let mut best = u64::MAX;
                for _ in 0..3 {
                    let t0 = mono_ns();
                    sleeper(kind);
                    let el = mono_ns() - t0;
                    best = best.min(el);
                    worst_early = worst_early.max(us as i64 * 1000 - el as i64);
                }
                min_late = min_late.min(best);
                if best > us * 1000 + 300_000_000 {
                    viol = Some((format!("C14/interposed/{}/returns-late", ["usleep", "nanosleep", "select"][kind]), format!("fastest of 3 took {best} ns for {us} us")));
                }
            }
            if worst_early > 1_000_000.min(us as i64 * 100) + 20_000 {
                viol = Some(("C14/interposed/returns-early".into(), format!("{worst_early} ns early for {us} us")));
            }
            obs = jobj! {"fastest_ns" => min_late, "requested_us" => us};
            fp = format!("1|{us}");
        }
        2 => {
            // C02 C-ABI mapping: values, zero, timeouts
            out.begin(case, jobj! {"scenario" => "C ABI: task_crate / task_join / task_timeout_join value mapping", "tasks" => 8});
            assert_eq!(0, unsafe { (a.init)(cfg) });
            let mut details = vec![];
            for i in 0..8usize {
                let v = rng.below(1 << 40) as usize + 1;
                let h = unsafe { (a.task_crate)(quick, v, (i % 3) as i64 - 1) };
                let r = if i % 2 == 0 { unsafe { (a.task_join)(&h) } } else { unsafe { (a.task_timeout_join)(&h, 5_000_000_000) } };
                if r != v as i64 {
                    viol = Some(("C02/c-abi/join-returned-wrong-value".into(), format!("task returning {v}: join gave {r}")));
                }
                details.push(r);
            }
            // a slow task joined with a short timeout reports -1, then its real value on a second, patient join
            let h = unsafe { (a.task_crate)(slow, 77, 0) };
            let t0 = Instant::now();
            let first = unsafe { (a.task_timeout_join)(&h, 20_000_000) };
            let first_ms = t0.elapsed().as_millis() as u64;
            let second = unsafe { (a.task_timeout_join)(&h, 5_000_000_000) };
            if first != -1 && first_ms < 140 {
                viol = viol.or(Some(("C02/c-abi/short-timeout-join-wrong".into(), format!("20 ms join on a 150 ms task returned {first} after {first_ms} ms"))));
            } else if first == -1 && first_ms > 2000 {
                viol = viol.or(Some(("C02/c-abi/short-timeout-join-late".into(), format!("20 ms join returned after {first_ms} ms"))));
            } else if second != 77 && first == -1 {
                viol = viol.or(Some(("C02/c-abi/second-join-after-timeout-wrong".into(), format!("patient second join returned {second}, expected 77"))));
            }
            obs = jobj! {"joins" => details.len(), "short_join" => first, "second_join" => second};
            fp = "2".to_string();
        }
        3 => {
            // C18 under interposition: non-blocking recv on a plain thread with hook=true
            out.begin(case, jobj! {"scenario" => "plain thread with hook=true: libc recv/read on a caller-non-blocking empty socket must return EAGAIN at once and keep O_NONBLOCK", "peer_writes_after_ms" => 700});
            assert_eq!(0, unsafe { (a.init)(cfg) });
            let mut sv = [0; 2];
            assert_eq!(0, unsafe { libc::socketpair(libc::AF_UNIX, libc::SOCK_STREAM, 0, sv.as_mut_ptr()) });
            unsafe {
                let fl = libc::fcntl(sv[0], libc::F_GETFL);
                libc::fcntl(sv[0], libc::F_SETFL, fl | libc::O_NONBLOCK);
            }
            let peer = sv[1];
            let helper = std::thread::spawn(move || {
                std::thread::sleep(Duration::from_millis(700));
                let m = [1u8; 4];
                unsafe { libc::write(peer, m.as_ptr().cast(), 4) };
            });
            let fb = unsafe { libc::fcntl(sv[0], libc::F_GETFL) };
            let mut b = [0u8; 8];
            let t0 = Instant::now();
            let r = unsafe { libc::recv(sv[0], b.as_mut_ptr().cast(), 8, 0) };
            let e = std::io::Error::last_os_error().raw_os_error().unwrap_or(0);
            let el = t0.elapsed().as_millis() as u64;
            let fa = unsafe { libc::fcntl(sv[0], libc::F_GETFL) };
            let _ = helper.join();
            obs = jobj! {"returned" => r as i64, "errno" => e, "elapsed_ms" => el, "flags_before" => fb, "flags_after" => fa};
            fp = "3".to_string();
            if fb != fa {
                viol = Some(("C18/interposed/blocking-mode-not-restored".into(), format!("{fb:#x} -> {fa:#x}")));
            } else if el >= 400 {
                viol = Some(("C18/interposed/nonblocking-call-waited-instead-of-EAGAIN".into(), format!("blocked {el} ms, returned {r} errno {e}")));
            } else if !(r == -1 && e == libc::EAGAIN) {
                viol = Some(("C18/interposed/nonblocking-would-block-not-reported-as-EAGAIN".into(), format!("returned {r} errno {e}")));
            }
        }
        _ => {
            // C23 through the C ABI: maybe_grow_stack at every level of a deep recursion inside a task and on a thread
            let depth = rng.usize(200, 1500);
            out.begin(case, jobj! {"scenario" => "C ABI maybe_grow_stack at every level of a recursion with 2 KiB frames, on a plain thread with a 256 KiB stack", "depth" => depth});
            assert_eq!(0, unsafe { (a.init)(cfg) });
            let h = std::thread::Builder::new().stack_size(256 * 1024).spawn(move || recurse(depth)).expect("spawn");
            let r = h.join();
            obs = jobj! {"result" => r.as_ref().map(|v| *v as i64).unwrap_or(-1), "expected" => depth + 1};
            fp = format!("4|{}", depth / 300);
            match r {
                Ok(v) if v == depth + 1 => {}
                other => viol = Some(("C23/c-abi/maybe_grow_stack-wrong-result".into(), format!("{other:?}, expected {}", depth + 1))),
            }
        }
    }
    if viol.as_ref().is_some_and(|v| v.0.contains("late") || v.0.contains("one-after-another") || v.0.contains("waited-instead") || v.0.contains("short-timeout-join")) && overloaded() {
        out.end(case, Verdict::Inconclusive, "machine-overloaded-during-timing-case", false, &fp, obs, &viol.map(|v| v.1).unwrap_or_default());
        unsafe { libc::_exit(0) };
    }
    match viol {
        Some((sig, d)) => out.end(case, Verdict::Violated, &sig, true, &fp, obs, &d),
        None => out.end(case, Verdict::Held, "", true, &fp, obs, ""),
    }
    let _ = J::Null;
    unsafe { libc::_exit(0) };
}
