// Shared between wl-pure/src/bin/local.rs and wl-core (include!d after `use <path>::CoroutineLocal;`).
// Model-based oracle for coroutine-local storage with drop-counting values.
use std::collections::HashMap;
use std::sync::Mutex;

pub static CREATED: Mutex<Vec<u64>> = Mutex::new(Vec::new());
pub static DROPPED: Mutex<Vec<u64>> = Mutex::new(Vec::new());

#[derive(Debug)]
pub struct Tracked(pub u64);

impl Tracked {
    pub fn new(id: u64) -> Self {
        CREATED.lock().unwrap().push(id);
        Tracked(id)
    }
}

impl Drop for Tracked {
    fn drop(&mut self) {
        DROPPED.lock().unwrap().push(self.0);
    }
}

// three concrete value types of different size/shape; a key always holds the same type
#[derive(Debug)]
pub struct VA(pub Tracked);
#[derive(Debug)]
pub struct VB(pub Tracked, pub String);
#[derive(Debug)]
pub struct VC(pub Tracked, pub [u64; 4]);

pub const KEYS: [&str; 5] = ["k0", "k1", "k2", "k3", "k4"];

fn key_type(k: usize) -> u8 {
    [0u8, 1, 2, 0, 3][k]
}

/// A zero-sized value with a destructor (an RAII guard): it cannot carry an id, so it is audited by counting.
#[derive(Debug)]
pub struct VZ;
pub static Z_CREATED: std::sync::atomic::AtomicUsize = std::sync::atomic::AtomicUsize::new(0);
pub static Z_DROPPED: std::sync::atomic::AtomicUsize = std::sync::atomic::AtomicUsize::new(0);

impl VZ {
    fn new() -> Self {
        Z_CREATED.fetch_add(1, std::sync::atomic::Ordering::SeqCst);
        VZ
    }
}

impl Drop for VZ {
    fn drop(&mut self) {
        Z_DROPPED.fetch_add(1, std::sync::atomic::Ordering::SeqCst);
    }
}

#[derive(Clone, Copy, Debug)]
pub enum LOp {
    Put(usize, usize),
    Get(usize, usize),
    GetMut(usize, usize),
    Remove(usize, usize),
}

pub fn lop_str(o: &LOp) -> String {
    match o {
        LOp::Put(s, k) => format!("s{s}.put(k{k})"),
        LOp::Get(s, k) => format!("s{s}.get(k{k})"),
        LOp::GetMut(s, k) => format!("s{s}.get_mut(k{k})"),
        LOp::Remove(s, k) => format!("s{s}.remove(k{k})"),
    }
}

pub fn gen_ops(rng: &mut mon::Rng, n: usize, stores: usize) -> Vec<LOp> {
    (0..n)
        .map(|_| {
            let s = rng.usize(0, stores - 1);
            let k = rng.usize(0, KEYS.len() - 1);
            match rng.below(10) {
                0..=3 => LOp::Put(s, k),
                4..=5 => LOp::Get(s, k),
                6 => LOp::GetMut(s, k),
                _ => LOp::Remove(s, k),
            }
        })
        .collect()
}

fn put_typed(store: &CoroutineLocal<'static>, k: usize, id: u64) -> Option<u64> {
    match key_type(k) {
        0 => store.put(KEYS[k], VA(Tracked::new(id))).map(|v| v.0 .0),
        1 => store.put(KEYS[k], VB(Tracked::new(id), format!("payload-{id}"))).map(|v| {
            assert_eq!(v.1, format!("payload-{}", v.0 .0), "payload of returned value corrupted");
            v.0 .0
        }),
        2 => store.put(KEYS[k], VC(Tracked::new(id), [id; 4])).map(|v| {
            assert_eq!(v.1, [v.0 .0; 4], "payload of returned value corrupted");
            v.0 .0
        }),
        _ => store.put(KEYS[k], VZ::new()).map(|_| u64::MAX),
    }
}

fn get_typed(store: &CoroutineLocal<'static>, k: usize, mutable: bool) -> Option<u64> {
    match (key_type(k), mutable) {
        (0, false) => store.get::<VA>(KEYS[k]).map(|v| v.0 .0),
        (0, true) => store.get_mut::<VA>(KEYS[k]).map(|v| v.0 .0),
        (1, false) => store.get::<VB>(KEYS[k]).map(|v| v.0 .0),
        (1, true) => store.get_mut::<VB>(KEYS[k]).map(|v| {
            v.1.push('!'); // mutate through get_mut, must be visible later and must not corrupt
            v.1.pop();
            v.0 .0
        }),
        (2, false) => store.get::<VC>(KEYS[k]).map(|v| v.0 .0),
        (2, true) => store.get_mut::<VC>(KEYS[k]).map(|v| v.0 .0),
        (_, false) => store.get::<VZ>(KEYS[k]).map(|_| u64::MAX),
        (_, true) => store.get_mut::<VZ>(KEYS[k]).map(|_| u64::MAX),
    }
}

fn remove_typed(store: &CoroutineLocal<'static>, k: usize) -> Option<u64> {
    match key_type(k) {
        0 => store.remove::<VA>(KEYS[k]).map(|v| v.0 .0),
        1 => store.remove::<VB>(KEYS[k]).map(|v| v.0 .0),
        2 => store.remove::<VC>(KEYS[k]).map(|v| v.0 .0),
        _ => store.remove::<VZ>(KEYS[k]).map(|_| u64::MAX),
    }
}

pub struct LocalModel {
    pub maps: Vec<HashMap<usize, u64>>,
    pub next_id: u64,
    pub returned_values: usize,
}

impl LocalModel {
    pub fn new(stores: usize, id_base: u64) -> Self {
        LocalModel { maps: vec![HashMap::new(); stores], next_id: id_base, returned_values: 0 }
    }
    /// Apply one op to the real store and to the model; Err = (signature kind, detail).
    pub fn step(&mut self, store: &CoroutineLocal<'static>, op: &LOp) -> Result<(), (String, String)> {
        match *op {
            LOp::Put(s, k) => {
                let id = self.next_id;
                self.next_id += 1;
                let got = put_typed(store, k, id);
                let want = self.maps[s].insert(k, if key_type(k) == 3 { u64::MAX } else { id });
                if got.is_some() {
                    self.returned_values += 1;
                }
                if got != want {
                    return Err(("put-returns-wrong-previous-value".into(), format!("{}: returned {got:?}, model {want:?}", lop_str(op))));
                }
            }
            LOp::Get(s, k) | LOp::GetMut(s, k) => {
                let got = get_typed(store, k, matches!(op, LOp::GetMut(..)));
                let want = self.maps[s].get(&k).copied();
                if got != want {
                    let kind = if want.is_none() { "value-visible-that-was-never-stored-here" } else { "get-returns-wrong-value" };
                    return Err((kind.into(), format!("{}: returned {got:?}, model {want:?}", lop_str(op))));
                }
            }
            LOp::Remove(s, k) => {
                let got = remove_typed(store, k);
                let want = self.maps[s].remove(&k);
                if got.is_some() {
                    self.returned_values += 1;
                }
                if got != want {
                    return Err(("remove-returns-wrong-value".into(), format!("{}: returned {got:?}, model {want:?}", lop_str(op))));
                }
            }
        }
        Ok(())
    }
    pub fn still_stored(&self) -> Vec<u64> {
        self.maps.iter().flat_map(|m| m.values().copied()).collect()
    }
}

/// After every owner of a store has been dropped: each created id must have been dropped exactly once.
pub fn drop_audit(id_lo: u64, id_hi: u64) -> Result<(usize, usize), (String, String)> {
    let created: Vec<u64> = CREATED.lock().unwrap().iter().copied().filter(|i| (id_lo..id_hi).contains(i)).collect();
    let mut counts: HashMap<u64, usize> = HashMap::new();
    for d in DROPPED.lock().unwrap().iter().filter(|i| (id_lo..id_hi).contains(i)) {
        *counts.entry(*d).or_default() += 1;
    }
    let twice: Vec<u64> = counts.iter().filter(|(_, c)| **c > 1).map(|(i, _)| *i).collect();
    if !twice.is_empty() {
        return Err(("value-dropped-twice".into(), format!("ids {twice:?}")));
    }
    let never: Vec<u64> = created.iter().copied().filter(|i| !counts.contains_key(i)).collect();
    if !never.is_empty() {
        return Err(("stored-values-not-dropped-with-their-owner".into(), format!("{} of {} values never dropped, e.g. ids {:?}", never.len(), created.len(), &never[..never.len().min(5)])));
    }
    let (zc, zd) = (Z_CREATED.load(std::sync::atomic::Ordering::SeqCst), Z_DROPPED.load(std::sync::atomic::Ordering::SeqCst));
    if zd > zc {
        return Err(("value-dropped-twice".into(), format!("zero-sized guards: {zc} created, {zd} dropped")));
    }
    if zd < zc {
        return Err(("stored-values-not-dropped-with-their-owner".into(), format!("zero-sized guards: {zc} created, only {zd} dropped")));
    }
    Ok((created.len(), counts.len()))
}
