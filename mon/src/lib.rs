//! Tiny dependency-free monitor kit shared by every workload binary:
//! seeded PRNG, hand-rolled JSON, JSONL case log, argument parsing.
use std::fmt::Write as _;
use std::io::Write as _;
use std::sync::Mutex;

// ---------------------------------------------------------------- PRNG
#[derive(Clone, Debug)]
pub struct Rng(pub u64);

impl Rng {
    pub fn new(seed: u64) -> Self {
        Rng(seed ^ 0x9E37_79B9_7F4A_7C15)
    }
    /// Independent stream for (seed, index).
    pub fn for_case(seed: u64, case: u64) -> Self {
        let mut r = Rng::new(seed.wrapping_mul(0xD134_2543_DE82_EF95).wrapping_add(case.wrapping_mul(0x2545_F491_4F6C_DD1D)));
        r.next_u64();
        r.next_u64();
        r
    }
    pub fn next_u64(&mut self) -> u64 {
        self.0 = self.0.wrapping_add(0x9E37_79B9_7F4A_7C15);
        let mut z = self.0;
        z = (z ^ (z >> 30)).wrapping_mul(0xBF58_476D_1CE4_E5B9);
        z = (z ^ (z >> 27)).wrapping_mul(0x94D0_49BB_1331_11EB);
        z ^ (z >> 31)
    }
    pub fn below(&mut self, n: u64) -> u64 {
        if n == 0 {
            0
        } else {
            self.next_u64() % n
        }
    }
    pub fn range(&mut self, lo: u64, hi_incl: u64) -> u64 {
        lo + self.below(hi_incl - lo + 1)
    }
    pub fn usize(&mut self, lo: usize, hi_incl: usize) -> usize {
        self.range(lo as u64, hi_incl as u64) as usize
    }
    pub fn chance(&mut self, num: u64, den: u64) -> bool {
        self.below(den) < num
    }
    pub fn pick<'a, T>(&mut self, xs: &'a [T]) -> &'a T {
        &xs[self.below(xs.len() as u64) as usize]
    }
}

// ---------------------------------------------------------------- JSON
#[derive(Clone, Debug, PartialEq)]
pub enum J {
    Null,
    B(bool),
    I(i64),
    U(u64),
    F(f64),
    S(String),
    A(Vec<J>),
    O(Vec<(String, J)>),
}

impl J {
    pub fn s(x: impl Into<String>) -> J {
        J::S(x.into())
    }
    pub fn write(&self, out: &mut String) {
        match self {
            J::Null => out.push_str("null"),
            J::B(b) => out.push_str(if *b { "true" } else { "false" }),
            J::I(i) => {
                let _ = write!(out, "{i}");
            }
            J::U(u) => {
                let _ = write!(out, "{u}");
            }
            J::F(f) => {
                if f.is_finite() {
                    let _ = write!(out, "{f}");
                } else {
                    out.push_str("null");
                }
            }
            J::S(s) => {
                out.push('"');
                for c in s.chars() {
                    match c {
                        '"' => out.push_str("\\\""),
                        '\\' => out.push_str("\\\\"),
                        '\n' => out.push_str("\\n"),
                        '\r' => out.push_str("\\r"),
                        '\t' => out.push_str("\\t"),
                        c if (c as u32) < 0x20 => {
                            let _ = write!(out, "\\u{:04x}", c as u32);
                        }
                        c => out.push(c),
                    }
                }
                out.push('"');
            }
            J::A(v) => {
                out.push('[');
                for (i, x) in v.iter().enumerate() {
                    if i > 0 {
                        out.push(',');
                    }
                    x.write(out);
                }
                out.push(']');
            }
            J::O(v) => {
                out.push('{');
                for (i, (k, x)) in v.iter().enumerate() {
                    if i > 0 {
                        out.push(',');
                    }
                    J::S(k.clone()).write(out);
                    out.push(':');
                    x.write(out);
                }
                out.push('}');
            }
        }
    }
    pub fn dump(&self) -> String {
        let mut s = String::new();
        self.write(&mut s);
        s
    }
}

impl From<bool> for J {
    fn from(x: bool) -> J {
        J::B(x)
    }
}
impl From<&str> for J {
    fn from(x: &str) -> J {
        J::S(x.to_string())
    }
}
impl From<String> for J {
    fn from(x: String) -> J {
        J::S(x)
    }
}
impl From<&String> for J {
    fn from(x: &String) -> J {
        J::S(x.clone())
    }
}
macro_rules! from_int {
    ($($t:ty => $v:ident as $c:ty),*) => {$(impl From<$t> for J { fn from(x: $t) -> J { J::$v(x as $c) } })*};
}
from_int!(u8 => U as u64, u16 => U as u64, u32 => U as u64, u64 => U as u64, usize => U as u64,
          i8 => I as i64, i16 => I as i64, i32 => I as i64, i64 => I as i64, isize => I as i64);
impl From<f64> for J {
    fn from(x: f64) -> J {
        J::F(x)
    }
}
impl<T: Into<J>> From<Vec<T>> for J {
    fn from(x: Vec<T>) -> J {
        J::A(x.into_iter().map(Into::into).collect())
    }
}
impl<T: Into<J>> From<Option<T>> for J {
    fn from(x: Option<T>) -> J {
        x.map_or(J::Null, Into::into)
    }
}

#[macro_export]
macro_rules! jobj {
    ($($k:expr => $v:expr),* $(,)?) => {
        $crate::J::O(vec![$(($k.to_string(), $crate::J::from($v))),*])
    };
}

// ---------------------------------------------------------------- args
#[derive(Debug, Clone)]
pub struct Args {
    pub pos: Vec<String>,
    pub kv: Vec<(String, String)>,
}

impl Args {
    pub fn parse() -> Self {
        Self::from_iter(std::env::args().skip(1))
    }
    pub fn from_iter(it: impl Iterator<Item = String>) -> Self {
        let v: Vec<String> = it.collect();
        let mut pos = vec![];
        let mut kv = vec![];
        let mut i = 0;
        while i < v.len() {
            if let Some(k) = v[i].strip_prefix("--") {
                if let Some((a, b)) = k.split_once('=') {
                    kv.push((a.to_string(), b.to_string()));
                } else if i + 1 < v.len() {
                    kv.push((k.to_string(), v[i + 1].clone()));
                    i += 1;
                } else {
                    kv.push((k.to_string(), String::new()));
                }
            } else {
                pos.push(v[i].clone());
            }
            i += 1;
        }
        Args { pos, kv }
    }
    pub fn get(&self, k: &str) -> Option<&str> {
        self.kv.iter().rev().find(|(a, _)| a == k).map(|(_, b)| b.as_str())
    }
    pub fn u64(&self, k: &str, d: u64) -> u64 {
        self.get(k).and_then(|s| s.parse().ok()).unwrap_or(d)
    }
    pub fn str(&self, k: &str, d: &str) -> String {
        self.get(k).unwrap_or(d).to_string()
    }
    pub fn thorough(&self) -> bool {
        self.get("tier") == Some("thorough")
    }
}

// ---------------------------------------------------------------- case log
/// Verdicts are three-valued and never folded.
#[derive(Clone, Copy, Debug, PartialEq, Eq)]
pub enum Verdict {
    Held,
    Violated,
    Inconclusive,
}

impl Verdict {
    pub fn as_str(self) -> &'static str {
        match self {
            Verdict::Held => "held",
            Verdict::Violated => "violated",
            Verdict::Inconclusive => "inconclusive",
        }
    }
}

pub struct Out {
    sink: Mutex<Box<dyn std::io::Write + Send>>,
}

impl Out {
    pub fn open(args: &Args) -> Out {
        let sink: Box<dyn std::io::Write + Send> = match args.get("out") {
            Some(p) if !p.is_empty() && p != "-" => Box::new(
                std::fs::OpenOptions::new()
                    .create(true)
                    .append(true)
                    .open(p)
                    .expect("open --out"),
            ),
            _ => Box::new(std::io::stdout()),
        };
        Out { sink: Mutex::new(sink) }
    }
    pub fn line(&self, j: &J) {
        let mut s = String::from("@@");
        j.write(&mut s);
        s.push('\n');
        let mut g = self.sink.lock().unwrap_or_else(|e| e.into_inner());
        let _ = g.write_all(s.as_bytes());
        let _ = g.flush();
    }
    pub fn begin(&self, case: u64, desc: J) {
        self.line(&jobj! {"t" => "begin", "case" => case, "desc" => desc});
    }
    #[allow(clippy::too_many_arguments)]
    pub fn end(&self, case: u64, v: Verdict, sig: &str, nontrivial: bool, fp: &str, obs: J, detail: &str) {
        self.line(&jobj! {"t" => "end", "case" => case, "verdict" => v.as_str(), "sig" => sig,
            "nontrivial" => nontrivial, "fp" => fp, "obs" => obs, "detail" => detail});
    }
    pub fn stat(&self, j: J) {
        self.line(&jobj! {"t" => "stat", "stat" => j});
    }
}

/// Case range helper: --from A --to B (half-open), defaults 0..n.
pub fn case_range(args: &Args, default_n: u64) -> (u64, u64) {
    let a = args.u64("from", 0);
    let b = args.u64("to", default_n);
    (a, b)
}

/// FNV-1a, for cheap fingerprints.
pub fn fnv(bytes: &[u8]) -> u64 {
    let mut h = 0xcbf2_9ce4_8422_2325u64;
    for b in bytes {
        h ^= u64::from(*b);
        h = h.wrapping_mul(0x0000_0100_0000_01B3);
    }
    h
}

pub fn fp_of(s: &str) -> String {
    format!("{:016x}", fnv(s.as_bytes()))
}
