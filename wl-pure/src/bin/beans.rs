//! C26 — named singletons are unique under concurrent first use.
//! usage: beans <names|factory> --seed S --from A --to B [--threads N]
use mon::{case_range, jobj, Args, Out, Rng, Verdict, J};
use std::sync::atomic::{AtomicUsize, Ordering};
use std::sync::{Arc, Barrier};
use wl_pure::beans::BeanFactory;

static CREATED: AtomicUsize = AtomicUsize::new(0);

#[derive(Debug)]
struct Probe {
    serial: usize,
}

impl Default for Probe {
    fn default() -> Self {
        Probe { serial: CREATED.fetch_add(1, Ordering::SeqCst) }
    }
}

/// One round: `threads` barrier-released threads ask for the same fresh name.
/// Returns (addresses handed out, address later lookups return, serials seen).
fn round(name: &'static str, threads: usize, jitter: &[u32]) -> (Vec<usize>, Option<usize>, Vec<usize>) {
    let bar = Arc::new(Barrier::new(threads));
    let hs: Vec<_> = (0..threads)
        .map(|t| {
            let bar = bar.clone();
            let spin = jitter[t % jitter.len()];
            std::thread::spawn(move || {
                bar.wait();
                for _ in 0..spin {
                    std::hint::spin_loop();
                }
                let p: &Probe = BeanFactory::get_or_default::<Probe>(name);
                (std::ptr::from_ref(p) as usize, p.serial)
            })
        })
        .collect();
    let mut addrs = vec![];
    let mut serials = vec![];
    for h in hs {
        let (a, s) = h.join().expect("thread");
        addrs.push(a);
        serials.push(s);
    }
    let later = BeanFactory::get_bean::<Probe>(name).map(|p| std::ptr::from_ref(p) as usize);
    (addrs, later, serials)
}

fn judge(addrs: &[usize], later: Option<usize>) -> Option<(&'static str, String)> {
    let mut d: Vec<usize> = addrs.to_vec();
    d.sort_unstable();
    d.dedup();
    if d.len() > 1 {
        return Some(("split-instance", format!("{} threads were handed {} different instances", addrs.len(), d.len())));
    }
    match later {
        None => Some(("later-lookup-missing", "get_bean returned None after get_or_default".into())),
        Some(l) if l != d[0] => Some(("later-lookup-differs", format!("threads got {:#x}, later lookup returns {l:#x}", d[0]))),
        _ => None,
    }
}

fn cmd_names(args: &Args, out: &Out) {
    let seed = args.u64("seed", 1);
    let (a, b) = case_range(args, 4);
    let rounds = args.u64("rounds", if cfg!(miri) { 2 } else { 200 }) as usize;
    for case in a..b {
        let mut rng = Rng::for_case(seed ^ 0xC26, case);
        let threads = if cfg!(miri) { rng.usize(2, 3) } else { *rng.pick(&[2usize, 3, 4, 8, 16]) };
        let jitter: Vec<u32> = (0..threads).map(|_| if cfg!(miri) { 0 } else { rng.below(200) as u32 }).collect();
        out.begin(case, jobj! {"what" => "get_or_default(fresh name) from barrier-released threads", "threads" => threads, "rounds" => rounds});
        let mut bad: Option<(&'static str, String)> = None;
        let mut multi_created = 0usize;
        let mut bad_round = 0usize;
        for r in 0..rounds {
            let name: &'static str = Box::leak(format!("c26-{seed}-{case}-{r}").into_boxed_str());
            let before = CREATED.load(Ordering::SeqCst);
            let (addrs, later, _serials) = round(name, threads, &jitter);
            if CREATED.load(Ordering::SeqCst) - before > 1 {
                multi_created += 1; // more than one Default::default() ran: the race window was actually entered
            }
            if let Some(b) = judge(&addrs, later) {
                if bad.is_none() {
                    bad_round = r;
                }
                bad.get_or_insert(b);
            }
        }
        let obs = jobj! {"rounds" => rounds, "rounds_where_the_creation_race_was_entered" => multi_created, "first_bad_round" => bad_round};
        let fp = format!("names|{threads}|{multi_created}");
        match bad {
            Some((k, d)) => out.end(case, Verdict::Violated, &format!("C26/get_or_default/{k}"), true, &fp, obs, &d),
            None => out.end(case, Verdict::Held, "", threads >= 2, &fp, obs, ""),
        }
    }
}

/// First use of the factory itself: needs a fresh process per trial.
#[cfg(not(miri))]
fn cmd_factory(args: &Args, out: &Out) {
    let seed = args.u64("seed", 1);
    let (a, b) = case_range(args, 4);
    let trials = args.u64("trials", 50);
    for case in a..b {
        let mut rng = Rng::for_case(seed ^ 0xFAC, case);
        let threads = *rng.pick(&[2usize, 4, 8, 16]);
        out.begin(case, jobj! {"what" => "first use of the bean factory itself, one forked process per trial", "threads" => threads, "trials" => trials});
        let mut split = 0u64;
        let mut other = 0u64;
        let mut entered = 0u64;
        for _ in 0..trials {
            let jitter: Vec<u32> = (0..threads).map(|_| rng.below(100) as u32).collect();
            let pid = unsafe { libc::fork() };
            if pid == 0 {
                // child: no thread has touched the factory yet
                let (addrs, later, _) = round("factory-first-use", threads, &jitter);
                let created = CREATED.load(Ordering::SeqCst);
                let code = match judge(&addrs, later) {
                    Some(("split-instance", _)) => 11,
                    Some(_) => 12,
                    None if created > 1 => 10,
                    None => 0,
                };
                unsafe { libc::_exit(code) };
            }
            let mut st = 0;
            unsafe { libc::waitpid(pid, &mut st, 0) };
            let code = if libc::WIFEXITED(st) { libc::WEXITSTATUS(st) } else { 99 };
            match code {
                0 => {}
                10 => entered += 1,
                11 => split += 1,
                _ => other += 1,
            }
        }
        let obs = jobj! {"trials" => trials, "trials_with_split_instances" => split, "trials_with_other_disagreement" => other, "trials_where_race_was_entered_but_resolved" => entered};
        let fp = format!("factory|{threads}|{}", entered.min(3));
        if split > 0 {
            out.end(case, Verdict::Violated, "C26/first-use/split-instance", true, &fp, obs, &format!("{split} of {trials} fresh processes handed different instances to concurrent first callers"));
        } else if other > 0 {
            out.end(case, Verdict::Violated, "C26/first-use/later-lookup-differs", true, &fp, obs, &format!("{other} of {trials} trials"));
        } else {
            out.end(case, Verdict::Held, "", true, &fp, obs, "");
        }
    }
}

/// Miri flavour of the factory race: each interpreter run (one per -Zmiri-many-seeds seed) is a fresh process.
fn cmd_factory_once(args: &Args, out: &Out) {
    let (a, b) = case_range(args, 1);
    for case in a..b {
        let threads = 2 + (case as usize % 2);
        out.begin(case, jobj! {"what" => "first use of the bean factory in a fresh interpreter", "threads" => threads});
        let (addrs, later, _) = round("factory-first-use", threads, &[0]);
        let created = CREATED.load(Ordering::SeqCst);
        let fp = format!("factory-once|{threads}|{created}");
        match judge(&addrs, later) {
            Some((k, d)) => out.end(case, Verdict::Violated, &format!("C26/first-use/{k}"), true, &fp, J::Null, &d),
            None => out.end(case, Verdict::Held, "", true, &fp, jobj! {"instances_created" => created}, ""),
        }
    }
}

fn main() {
    let args = Args::parse();
    let out = Out::open(&args);
    match args.pos.first().map(String::as_str) {
        Some("names") => cmd_names(&args, &out),
        #[cfg(not(miri))]
        Some("factory") => cmd_factory(&args, &out),
        Some("factory_once") => cmd_factory_once(&args, &out),
        Some("noop") => {}
        other => {
            eprintln!("unknown subcommand {other:?}");
            std::process::exit(64);
        }
    }
}
