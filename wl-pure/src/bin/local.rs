//! C25 — coroutine-local storage on the real local.rs (native + Miri).
//! usage: local hist --seed S --from A --to B
use mon::{case_range, fp_of, jobj, Args, Out, Rng, Verdict};
use wl_pure::local::CoroutineLocal;

include!("../../../shared/local_engine.rs");

fn main() {
    let args = Args::parse();
    let out = Out::open(&args);
    if args.pos.first().map(String::as_str) == Some("noop") {
        return;
    }
    let seed = args.u64("seed", 1);
    let (a, b) = case_range(&args, 4);
    for case in a..b {
        let mut rng = Rng::for_case(seed ^ 0xC25, case);
        let stores = rng.usize(1, 3);
        let n = if cfg!(miri) { rng.usize(4, 30) } else { rng.usize(4, 200) };
        let ops = gen_ops(&mut rng, n, stores);
        let trace: Vec<String> = ops.iter().map(lop_str).collect();
        out.begin(case, jobj! {"stores" => stores, "ops" => trace.join(" ")});
        let id_base = case * 1_000_000;
        let real: Vec<CoroutineLocal<'static>> = (0..stores).map(|_| CoroutineLocal::default()).collect();
        let mut model = LocalModel::new(stores, id_base);
        let mut bad = None;
        for op in &ops {
            let s = match op {
                LOp::Put(s, _) | LOp::Get(s, _) | LOp::GetMut(s, _) | LOp::Remove(s, _) => *s,
            };
            if let Err(e) = model.step(&real[s], op) {
                bad = Some(e);
                break;
            }
        }
        let left = model.still_stored().len();
        drop(real); // the owner goes away: everything still stored must be released now
        if bad.is_none() {
            if let Err(e) = drop_audit(id_base, id_base + 1_000_000) {
                bad = Some(e);
            }
        }
        let fp = fp_of(&trace.join(" "));
        let obs = jobj! {"ops" => ops.len(), "values_still_stored_at_drop" => left, "values_returned_by_put_or_remove" => model.returned_values};
        match bad {
            Some((k, d)) => out.end(case, Verdict::Violated, &format!("C25/{k}"), true, &fp, obs, &d),
            None => out.end(case, Verdict::Held, "", left > 0 && model.returned_values > 0, &fp, obs, ""),
        }
    }
}
