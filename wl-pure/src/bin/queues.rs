//! Workloads + online oracles for the work-steal queues (C03, C04, C05, C06).
//! The queue code is the real source from /repo (see lib.rs).
//!
//! usage: queues <c03|c04seq|c05|c06> --seed S --tier quick|thorough --from A --to B [--out F]
#![allow(clippy::too_many_lines, clippy::type_complexity)]
use mon::{case_range, fp_of, jobj, Args, Out, Rng, Verdict, J};
use std::collections::{BTreeMap, HashMap, HashSet};
use std::sync::atomic::{AtomicU64, AtomicUsize, Ordering};
use std::sync::Arc;
use wl_pure::ordered_work_steal::{OrderedLocalQueue, OrderedWorkStealQueue};
use wl_pure::work_steal::{LocalQueue, WorkStealQueue};

#[derive(Debug, Clone, Copy, PartialEq, Eq, Hash)]
struct Item {
    id: u64,
    prio: i64,
}

#[derive(Clone, Copy, Debug, PartialEq, Eq)]
enum Kind {
    Plain,
    Ordered,
}

impl Kind {
    fn name(self) -> &'static str {
        match self {
            Kind::Plain => "plain",
            Kind::Ordered => "ordered",
        }
    }
}

/// A shared queue of either kind, leaked so that local queues are 'static.
#[derive(Clone, Copy)]
enum Shared {
    Plain(&'static WorkStealQueue<Item>),
    Ordered(&'static OrderedWorkStealQueue<Item>),
}

enum Local {
    Plain(LocalQueue<'static, Item>),
    Ordered(OrderedLocalQueue<'static, Item>),
}

// The local handles hold `&Worker`, which is !Sync, so the handle is !Send. Each
// handle is moved to exactly one thread before use (what the runtime does too).
struct SendLocal(Local);
unsafe impl Send for SendLocal {}
// foreign producers (Op::PushF) share the handle the way the runtime shares an event loop's queue with submitting threads
unsafe impl Sync for SendLocal {}
unsafe impl Sync for Shared {}
unsafe impl Send for Shared {}

impl Shared {
    fn new(kind: Kind, locals: usize, cap: usize) -> Shared {
        match kind {
            Kind::Plain => Shared::Plain(Box::leak(Box::new(WorkStealQueue::new(locals, cap)))),
            Kind::Ordered => Shared::Ordered(Box::leak(Box::new(OrderedWorkStealQueue::new(locals, cap)))),
        }
    }
    fn local(&self) -> Local {
        match self {
            Shared::Plain(q) => Local::Plain(q.local_queue()),
            Shared::Ordered(q) => Local::Ordered(q.local_queue()),
        }
    }
    fn push(&self, it: Item) {
        match self {
            Shared::Plain(q) => q.push(it),
            Shared::Ordered(q) => q.push_with_priority(it.prio, it),
        }
    }
    fn pop(&self) -> Option<Item> {
        match self {
            Shared::Plain(q) => q.pop(),
            Shared::Ordered(q) => q.pop(),
        }
    }
    fn len(&self) -> usize {
        match self {
            Shared::Plain(q) => q.len(),
            Shared::Ordered(q) => q.len(),
        }
    }
}

impl Local {
    fn push(&self, it: Item) {
        match self {
            Local::Plain(q) => q.push(it),
            Local::Ordered(q) => q.push_with_priority(it.prio, it),
        }
    }
    fn pop(&self) -> Option<Item> {
        match self {
            Local::Plain(q) => q.pop(),
            Local::Ordered(q) => q.pop(),
        }
    }
    /// What the local queue believes it holds.
    fn believed_len(&self) -> usize {
        match self {
            Local::Plain(q) => q.len(),
            Local::Ordered(q) => q.local_len(),
        }
    }
    fn believed_full(&self) -> bool {
        match self {
            Local::Plain(q) => q.is_full(),
            Local::Ordered(q) => q.is_local_full(),
        }
    }
}

/// Real occupancy of all local queues together, from public accessors only.
fn locals_occupancy(shared: &Shared, locals: &[&Local]) -> usize {
    match shared {
        Shared::Plain(_) => locals.iter().map(|l| l.believed_len()).sum(),
        Shared::Ordered(q) => {
            // OrderedLocalQueue::len() = shared.len() + real occupancy of every local
            match locals.first() {
                Some(Local::Ordered(l)) => l.len().saturating_sub(q.len()),
                _ => 0,
            }
        }
    }
}

fn prio_from(rng: &mut Rng, palette: u64) -> i64 {
    match palette {
        0 => 0,
        1 => rng.below(3) as i64 - 1,
        2 => *rng.pick(&[i64::MIN, -7, 0, 0, 3, i64::MAX]),
        _ => rng.next_u64() as i64,
    }
}

// ====================================================================== C03
// Concurrent programs, one local per thread + the shared queue.
#[derive(Clone, Copy, Debug)]
enum Op {
    PushL(i64),
    /// push into the local queue of the next thread (what task submission from arbitrary threads does to an event loop's queue);
    /// only generated for the priority queue, whose `push_with_priority` takes turns between producers
    PushF(i64),
    PopL,
    PushS(i64),
    PopS,
}

fn op_str(o: &Op) -> String {
    match o {
        Op::PushL(p) => format!("L+{p}"),
        Op::PushF(p) => format!("F+{p}"),
        Op::PopL => "L-".into(),
        Op::PushS(p) => format!("S+{p}"),
        Op::PopS => "S-".into(),
    }
}

struct ThreadSlot {
    /// index of the op in progress + 1 (0 = idle / finished)
    cur: AtomicUsize,
    /// thread CPU clock id, published by the thread itself
    cpu_clock: AtomicU64,
    done: AtomicUsize,
}

#[cfg(not(miri))]
fn thread_cpu_ns(clock: u64) -> u64 {
    let mut ts = libc::timespec { tv_sec: 0, tv_nsec: 0 };
    let r = unsafe { libc::clock_gettime(clock as libc::clockid_t, &mut ts) };
    if r != 0 {
        return 0;
    }
    ts.tv_sec as u64 * 1_000_000_000 + ts.tv_nsec as u64
}

#[cfg(not(miri))]
fn my_cpu_clock() -> u64 {
    let mut c: libc::clockid_t = 0;
    unsafe {
        libc::pthread_getcpuclockid(libc::pthread_self(), &mut c);
    }
    c as u64
}

#[cfg(miri)]
fn my_cpu_clock() -> u64 {
    0
}

struct ConcCase {
    kind: Kind,
    threads: usize,
    cap: usize,
    palette: u64,
    progs: Vec<Vec<Op>>,
}

fn gen_conc(seed: u64, case: u64, thorough: bool, miri: bool) -> ConcCase {
    let mut rng = Rng::for_case(seed, case);
    let kind = if case % 2 == 0 { Kind::Ordered } else { Kind::Plain };
    let (threads, cap, ops) = if miri {
        (rng.usize(2, 3), rng.usize(1, 4), rng.usize(4, if thorough { 12 } else { 8 }))
    } else {
        let t = *rng.pick(&[2usize, 3, 4, 8, 16]);
        let cap = *rng.pick(&[1usize, 2, 3, 4, 8, 16, 64, 256]);
        let ops = if thorough { rng.usize(200, 20_000) } else { rng.usize(50, 4_000) };
        (t, cap, ops)
    };
    let palette = rng.below(4);
    // bias: more pushes than pops early so that locals overflow and get stolen from
    let push_bias = rng.range(40, 70);
    let shared_bias = rng.range(5, 30);
    // a third of the priority-queue cases have foreign producers
    let foreign_pct = if matches!(kind, Kind::Ordered) && (if miri { case % 4 == 2 } else { case % 6 == 2 }) { rng.range(20, 60) } else { 0 };
    let progs = (0..threads)
        .map(|_| {
            (0..ops)
                .map(|_| {
                    let push = rng.chance(push_bias, 100);
                    let sh = rng.chance(shared_bias, 100);
                    match (push, sh) {
                        (true, false) if rng.chance(foreign_pct, 100) => Op::PushF(prio_from(&mut rng, palette)),
                        (true, false) => Op::PushL(prio_from(&mut rng, palette)),
                        (true, true) => Op::PushS(prio_from(&mut rng, palette)),
                        (false, false) => Op::PopL,
                        (false, true) => Op::PopS,
                    }
                })
                .collect()
        })
        .collect();
    ConcCase { kind, threads, cap, palette, progs }
}

struct ConcResult {
    verdict: Verdict,
    sig: String,
    detail: String,
    nontrivial: bool,
    fp: String,
    obs: J,
}

/// Runs one concurrent program. `watch` = per-op CPU-time watchdog (C04): returns
/// Err(description) when one queue call burned more than `cpu_limit_ns` of its
/// thread's CPU time; in that case the worker threads are leaked and the caller
/// must exit the process.
fn run_conc(c: &ConcCase, cpu_limit_ns: u64, wall_limit_ms: u64) -> ConcResult {
    let shared = Shared::new(c.kind, c.threads, c.cap);
    let locals: Vec<Arc<SendLocal>> = (0..c.threads).map(|_| Arc::new(SendLocal(shared.local()))).collect();
    let slots: Arc<Vec<ThreadSlot>> = Arc::new(
        (0..c.threads)
            .map(|_| ThreadSlot { cur: AtomicUsize::new(0), cpu_clock: AtomicU64::new(0), done: AtomicUsize::new(0) })
            .collect(),
    );
    let start = Arc::new(std::sync::Barrier::new(c.threads));
    let mut handles = vec![];
    for t in 0..c.threads {
        let (local, next) = (locals[t].clone(), locals[(t + 1) % c.threads].clone());
        let prog = c.progs[t].clone();
        let slots = slots.clone();
        let start = start.clone();
        handles.push(std::thread::spawn(move || {
            let local = local;
            let slot = &slots[t];
            slot.cpu_clock.store(my_cpu_clock(), Ordering::SeqCst);
            let mut pushed: Vec<Item> = vec![];
            let mut popped: Vec<Item> = vec![];
            let mut ctr = 0u64;
            start.wait();
            for (i, op) in prog.iter().enumerate() {
                slot.cur.store(i + 1, Ordering::SeqCst);
                match *op {
                    Op::PushL(p) => {
                        let it = Item { id: ((t as u64) << 32) | ctr, prio: p };
                        ctr += 1;
                        pushed.push(it);
                        local.0.push(it);
                    }
                    Op::PushF(p) => {
                        let it = Item { id: ((t as u64) << 32) | ctr, prio: p };
                        ctr += 1;
                        pushed.push(it);
                        next.0.push(it);
                    }
                    Op::PushS(p) => {
                        let it = Item { id: ((t as u64) << 32) | ctr, prio: p };
                        ctr += 1;
                        pushed.push(it);
                        shared.push(it);
                    }
                    Op::PopL => {
                        if let Some(it) = local.0.pop() {
                            popped.push(it);
                        }
                    }
                    Op::PopS => {
                        if let Some(it) = shared.pop() {
                            popped.push(it);
                        }
                    }
                }
            }
            slot.cur.store(0, Ordering::SeqCst);
            slot.done.store(1, Ordering::SeqCst);
            drop((local, next));
            (pushed, popped)
        }));
    }
    // ---- watchdog (native only; under Miri the driver's timeout is the watchdog)
    #[cfg(not(miri))]
    {
        let t0 = std::time::Instant::now();
        let mut last: Vec<(usize, u64)> = vec![(0, 0); c.threads];
        loop {
            if slots.iter().all(|s| s.done.load(Ordering::SeqCst) == 1) {
                break;
            }
            std::thread::sleep(std::time::Duration::from_millis(5));
            for (t, s) in slots.iter().enumerate() {
                let cur = s.cur.load(Ordering::SeqCst);
                let clock = s.cpu_clock.load(Ordering::SeqCst);
                if cur == 0 || clock == 0 {
                    last[t] = (0, 0);
                    continue;
                }
                let cpu = thread_cpu_ns(clock);
                if last[t].0 != cur {
                    last[t] = (cur, cpu);
                } else if cpu.saturating_sub(last[t].1) > cpu_limit_ns {
                    let op = c.progs[t][cur - 1];
                    std::mem::forget(handles); // finished siblings hold non-empty locals; never run their Drop
                    return ConcResult {
                        verdict: Verdict::Violated,
                        sig: format!("C04/{}/concurrent/{}-never-returns", c.kind.name(), match op {
                            Op::PushL(_) => "local-push",
                            Op::PushF(_) => "foreign-local-push",
                            Op::PopL => "local-pop",
                            Op::PushS(_) => "shared-push",
                            Op::PopS => "shared-pop",
                        }),
                        detail: format!("thread {t} op #{} {} consumed {} ms of thread CPU time without returning", cur - 1, op_str(&op), cpu.saturating_sub(last[t].1) / 1_000_000),
                        nontrivial: true,
                        fp: String::new(),
                        obs: jobj! {"stuck_thread" => t, "stuck_op_index" => cur - 1, "stuck_op" => op_str(&op)},
                    };
                }
            }
            if t0.elapsed().as_millis() as u64 > wall_limit_ms {
                std::mem::forget(handles);
                return ConcResult {
                    verdict: Verdict::Inconclusive,
                    sig: "wall-watchdog".into(),
                    detail: "outer wall-clock watchdog fired before the threads finished".into(),
                    nontrivial: false,
                    fp: String::new(),
                    obs: J::Null,
                };
            }
        }
    }
    let _ = (cpu_limit_ns, wall_limit_ms);
    let locals_back = locals;
    let mut pushed_all: HashMap<u64, Item> = HashMap::new();
    let mut popped_all: Vec<Item> = vec![];
    let mut per_thread_foreign = 0usize;
    for (t, h) in handles.into_iter().enumerate() {
        let (pu, po) = h.join().expect("worker panicked");
        for it in &po {
            if (it.id >> 32) as usize != t {
                per_thread_foreign += 1;
            }
        }
        for it in pu {
            pushed_all.insert(it.id, it);
        }
        popped_all.extend(po);
    }
    // ---- oracle at quiescence
    let mut viol: Vec<(String, String)> = vec![];
    let mut seen: HashSet<u64> = HashSet::new();
    for it in &popped_all {
        if !pushed_all.contains_key(&it.id) {
            viol.push(("popped-item-never-pushed".into(), format!("id {:#x}", it.id)));
        } else if pushed_all[&it.id].prio != it.prio {
            viol.push(("item-payload-changed".into(), format!("id {:#x}", it.id)));
        }
        if !seen.insert(it.id) {
            viol.push(("duplicate-pop".into(), format!("id {:#x} popped twice while threads ran", it.id)));
        }
    }
    let remaining = pushed_all.len() - seen.len().min(pushed_all.len());
    let local_refs: Vec<&Local> = locals_back.iter().map(|l| &l.0).collect();
    let reported_len = shared.len();
    let locals_occ = locals_occupancy(&shared, &local_refs);
    let expected_shared = remaining as i64 - locals_occ as i64;
    if reported_len as i64 != expected_shared {
        viol.push((
            "shared-len-disagrees".into(),
            format!("shared.len()={reported_len} but it holds {expected_shared} (remaining {remaining} - in locals {locals_occ})"),
        ));
    }
    // drain: shared first, then every local
    let mut drained: Vec<Item> = vec![];
    let mut guard = 0usize;
    let limit = pushed_all.len() * 2 + 16;
    while let Some(it) = shared.pop() {
        drained.push(it);
        guard += 1;
        if guard > limit {
            break;
        }
    }
    let drained_from_shared = drained.len();
    for l in &locals_back {
        while let Some(it) = l.0.pop() {
            drained.push(it);
            guard += 1;
            if guard > limit {
                break;
            }
        }
    }
    let mut drained_ids: HashSet<u64> = HashSet::new();
    for it in &drained {
        if seen.contains(&it.id) {
            viol.push(("duplicate-pop".into(), format!("id {:#x} returned again by the drain", it.id)));
        }
        if !drained_ids.insert(it.id) {
            viol.push(("duplicate-pop".into(), format!("id {:#x} drained twice", it.id)));
        }
        if !pushed_all.contains_key(&it.id) {
            viol.push(("popped-item-never-pushed".into(), format!("id {:#x}", it.id)));
        }
    }
    let lost = pushed_all.keys().filter(|id| !seen.contains(id) && !drained_ids.contains(id)).count();
    if lost > 0 {
        viol.push(("items-lost".into(), format!("{lost} of {} pushed items are neither popped nor drained (drain took {} from shared, {} overall)", pushed_all.len(), drained_from_shared, drained.len())));
    }
    // the queues assert emptiness in Drop; never run those destructors on a broken state
    for l in locals_back {
        std::mem::forget(l);
    }
    let overflow_possible = c.progs.iter().any(|p| p.iter().filter(|o| matches!(o, Op::PushL(_) | Op::PushF(_))).count() > c.cap);
    let nontrivial = per_thread_foreign > 0 && overflow_possible;
    let obs = jobj! {
        "pushed" => pushed_all.len(), "popped_while_running" => seen.len(), "drained" => drained.len(),
        "reported_shared_len" => reported_len, "expected_shared_len" => expected_shared,
        "items_crossing_threads" => per_thread_foreign,
    };
    let fp = fp_of(&format!("{}|{}|{}|{}|{}", c.kind.name(), c.threads, reported_len, drained.len(), seen.len()));
    if let Some((k, d)) = viol.first() {
        ConcResult {
            verdict: Verdict::Violated,
            sig: format!("C03/{}/{}", c.kind.name(), k),
            detail: format!("{d}; all: {:?}", viol.iter().map(|v| v.0.as_str()).collect::<Vec<_>>()),
            nontrivial,
            fp,
            obs,
        }
    } else {
        ConcResult { verdict: Verdict::Held, sig: String::new(), detail: String::new(), nontrivial, fp, obs }
    }
}

fn conc_desc(c: &ConcCase) -> J {
    let progs: Vec<J> = c
        .progs
        .iter()
        .map(|p| {
            if p.len() <= 24 {
                J::A(p.iter().map(|o| J::S(op_str(o))).collect())
            } else {
                J::S(format!("{} ops: {} ...", p.len(), p.iter().take(12).map(op_str).collect::<Vec<_>>().join(" ")))
            }
        })
        .collect();
    jobj! {"kind" => c.kind.name(), "threads" => c.threads, "local_capacity" => c.cap, "priority_palette" => c.palette, "programs" => J::A(progs)}
}

fn cmd_c03(args: &Args, out: &Out, for_c04: bool) {
    let seed = args.u64("seed", 1);
    let miri = cfg!(miri);
    let (a, b) = case_range(args, 8);
    for case in a..b {
        let c = gen_conc(seed, case, args.thorough(), miri);
        out.begin(case, conc_desc(&c));
        let r = run_conc(&c, 1_000_000_000, 120_000);
        if for_c04 {
            // C04 only judges termination; a C03 finding in the same run is not C04's to report
            match (&r.verdict, r.sig.starts_with("C04/")) {
                (Verdict::Violated, true) => {
                    out.end(case, Verdict::Violated, &r.sig, r.nontrivial, &r.fp, r.obs, &r.detail);
                    std::process::exit(3); // stuck thread cannot be recovered
                }
                (Verdict::Inconclusive, _) => {
                    out.end(case, Verdict::Inconclusive, &r.sig, false, &r.fp, r.obs, &r.detail);
                    std::process::exit(3);
                }
                _ => out.end(case, Verdict::Held, "", r.nontrivial, &r.fp, r.obs, ""),
            }
        } else {
            match (&r.verdict, r.sig.starts_with("C04/")) {
                (Verdict::Violated, true) | (Verdict::Inconclusive, _) => {
                    // a stuck queue call is C04's finding; C03 has no quiescent state to judge
                    out.end(case, Verdict::Inconclusive, &format!("blocked-by:{}", r.sig), false, &r.fp, r.obs, &r.detail);
                    std::process::exit(3);
                }
                _ => out.end(case, r.verdict, &r.sig, r.nontrivial, &r.fp, r.obs, &r.detail),
            }
        }
    }
}

// ====================================================================== C04 (sequential histories)
#[derive(Clone, Copy, Debug)]
enum SOp {
    Push(usize, i64),
    Pop(usize),
    PushS(i64),
    PopS,
}

fn sop_str(o: &SOp) -> String {
    match o {
        SOp::Push(l, p) => format!("{}+{p}", (b'A' + *l as u8) as char),
        SOp::Pop(l) => format!("{}-", (b'A' + *l as u8) as char),
        SOp::PushS(p) => format!("S+{p}"),
        SOp::PopS => "S-".into(),
    }
}

struct SeqCase {
    kind: Kind,
    locals: usize,
    cap: usize,
    ops: Vec<SOp>,
}

fn gen_seq(seed: u64, case: u64, thorough: bool) -> SeqCase {
    let mut rng = Rng::for_case(seed ^ 0xC04, case);
    let kind = if case % 4 == 3 { Kind::Plain } else { Kind::Ordered };
    let locals = rng.usize(2, 4);
    let cap = rng.usize(1, 8);
    let n = rng.usize(8, if thorough { 400 } else { 120 });
    let palette = rng.below(4);
    // phases make "fill A / let B steal / refill A" likely
    let mut ops = vec![];
    let mut focus = rng.usize(0, locals - 1);
    let mut push_pct = 80u64;
    for i in 0..n {
        if i % rng.usize(3, 12).max(1) == 0 {
            focus = rng.usize(0, locals - 1);
            push_pct = *rng.pick(&[10u64, 30, 50, 80, 95]);
        }
        let l = if rng.chance(80, 100) { focus } else { rng.usize(0, locals - 1) };
        let op = if rng.chance(5, 100) {
            if rng.chance(1, 2) {
                SOp::PushS(prio_from(&mut rng, palette))
            } else {
                SOp::PopS
            }
        } else if rng.chance(push_pct, 100) {
            SOp::Push(l, prio_from(&mut rng, palette))
        } else {
            SOp::Pop(l)
        };
        ops.push(op);
    }
    SeqCase { kind, locals, cap, ops }
}

fn seq_desc(c: &SeqCase) -> J {
    jobj! {"kind" => c.kind.name(), "locals" => c.locals, "local_capacity" => c.cap,
        "history" => c.ops.iter().map(sop_str).collect::<Vec<_>>().join(" ")}
}

/// Executes a sequential history on a worker thread under the per-call CPU-time
/// watchdog. Returns (verdict, sig, detail, nontrivial, steps_done, crossings, overflows).
#[cfg(not(miri))]
fn run_seq(c: &SeqCase, cpu_limit_ns: u64) -> (Verdict, String, String, bool, J) {
    let cur = Arc::new(AtomicUsize::new(0));
    let clock = Arc::new(AtomicU64::new(0));
    let done = Arc::new(AtomicUsize::new(0));
    let stats = Arc::new([AtomicUsize::new(0), AtomicUsize::new(0), AtomicUsize::new(0)]);
    let (kind, nlocals, cap, ops) = (c.kind, c.locals, c.cap, c.ops.clone());
    let (cur2, clock2, done2, stats2) = (cur.clone(), clock.clone(), done.clone(), stats.clone());
    let h = std::thread::spawn(move || {
        clock2.store(my_cpu_clock(), Ordering::SeqCst);
        let shared = Shared::new(kind, nlocals, cap);
        let locals: Vec<Local> = (0..nlocals).map(|_| shared.local()).collect();
        let mut origin: HashMap<u64, Option<usize>> = HashMap::new();
        let mut victim_of_crossing: HashSet<usize> = HashSet::new();
        let mut id = 0u64;
        for (i, op) in ops.iter().enumerate() {
            cur2.store(i + 1, Ordering::SeqCst);
            match *op {
                SOp::Push(l, p) => {
                    if locals[l].believed_full() && victim_of_crossing.contains(&l) {
                        // overflow path taken on a queue that items were taken away from
                        stats2[1].fetch_add(1, Ordering::SeqCst);
                    }
                    origin.insert(id, Some(l));
                    locals[l].push(Item { id, prio: p });
                    id += 1;
                }
                SOp::Pop(l) => {
                    if let Some(it) = locals[l].pop() {
                        if let Some(Some(o)) = origin.get(&it.id) {
                            if *o != l {
                                stats2[0].fetch_add(1, Ordering::SeqCst);
                                victim_of_crossing.insert(*o);
                            }
                        }
                    }
                }
                SOp::PushS(p) => {
                    origin.insert(id, None);
                    shared.push(Item { id, prio: p });
                    id += 1;
                }
                SOp::PopS => {
                    let _ = shared.pop();
                }
            }
            stats2[2].fetch_add(1, Ordering::SeqCst);
        }
        cur2.store(0, Ordering::SeqCst);
        // drain so that the Drop assertions are not what we test here
        for l in &locals {
            let mut g = 0;
            while l.pop().is_some() && g < 100_000 {
                g += 1;
            }
        }
        for l in locals {
            std::mem::forget(l);
        }
        done2.store(1, Ordering::SeqCst);
    });
    let t0 = std::time::Instant::now();
    let mut last = (0usize, 0u64);
    loop {
        if done.load(Ordering::SeqCst) == 1 {
            break;
        }
        if h.is_finished() && done.load(Ordering::SeqCst) == 0 {
            // panicked inside a queue call
            let i = cur.load(Ordering::SeqCst);
            let _ = h.join();
            return (
                Verdict::Violated,
                format!("C04/{}/sequential/queue-call-panicked", c.kind.name()),
                format!("op #{} panicked", i.saturating_sub(1)),
                true,
                jobj! {"steps_done" => stats[2].load(Ordering::SeqCst)},
            );
        }
        std::thread::sleep(std::time::Duration::from_millis(2));
        let i = cur.load(Ordering::SeqCst);
        let ck = clock.load(Ordering::SeqCst);
        if i == 0 || ck == 0 {
            continue;
        }
        let cpu = thread_cpu_ns(ck);
        if last.0 != i {
            last = (i, cpu);
        } else if cpu.saturating_sub(last.1) > cpu_limit_ns {
            let op = c.ops[i - 1];
            let what = match op {
                SOp::Push(..) => "local-push",
                SOp::Pop(_) => "local-pop",
                SOp::PushS(_) => "shared-push",
                SOp::PopS => "shared-pop",
            };
            return (
                Verdict::Violated,
                format!("C04/{}/sequential/{what}-never-returns", c.kind.name()),
                format!("op #{} ({}) consumed {} ms of its thread's CPU time without returning; prefix: {}", i - 1, sop_str(&op), cpu.saturating_sub(last.1) / 1_000_000,
                    c.ops[..i].iter().map(sop_str).collect::<Vec<_>>().join(" ")),
                true,
                jobj! {"steps_done" => stats[2].load(Ordering::SeqCst), "stuck_op_index" => i - 1, "stuck_op" => sop_str(&op)},
            );
        }
        if t0.elapsed().as_secs() > 120 {
            return (Verdict::Inconclusive, "wall-watchdog".into(), "outer watchdog".into(), false, J::Null);
        }
    }
    let _ = h.join();
    let crossings = stats[0].load(Ordering::SeqCst);
    let overflows_on_victim = stats[1].load(Ordering::SeqCst);
    (
        Verdict::Held,
        String::new(),
        String::new(),
        crossings > 0 && overflows_on_victim > 0,
        jobj! {"steps_done" => stats[2].load(Ordering::SeqCst), "items_taken_by_other_local" => crossings, "overflow_pushes_on_victim" => overflows_on_victim},
    )
}

#[cfg(not(miri))]
fn cmd_c04seq(args: &Args, out: &Out) {
    let seed = args.u64("seed", 1);
    let (a, b) = case_range(args, 8);
    for case in a..b {
        let c = gen_seq(seed, case, args.thorough());
        out.begin(case, seq_desc(&c));
        let (v, sig, detail, nt, obs) = run_seq(&c, 1_000_000_000);
        let fp = fp_of(&seq_desc(&c).dump());
        out.end(case, v, &sig, nt, &fp, obs, &detail);
        if v != Verdict::Held {
            std::process::exit(3);
        }
    }
}

// ====================================================================== C05
/// Reference model of one priority queue: ordered multimap (prio, seq) -> id.
#[derive(Default)]
struct PModel {
    m: BTreeMap<(i64, u64), u64>,
    seq: u64,
}

impl PModel {
    fn push(&mut self, prio: i64, id: u64) {
        self.m.insert((prio, self.seq), id);
        self.seq += 1;
    }
    fn pop(&mut self) -> Option<u64> {
        let k = *self.m.keys().next()?;
        self.m.remove(&k)
    }
    fn len(&self) -> usize {
        self.m.len()
    }
}

/// scenario 0: shared ordered queue alone; 1: one ordered local within capacity;
/// 2: steal batches keep priority and order; 3: bounded-exhaustive small histories
fn c05_case(seed: u64, case: u64, thorough: bool) -> (Verdict, String, String, bool, String, J, J) {
    let mut rng = Rng::for_case(seed ^ 0xC05, case);
    let scenario = case % 3;
    let palette = rng.range(1, 3);
    let mut trace: Vec<String> = vec![];
    let mut viol: Option<(String, String)> = None;
    let mut ties = false;
    let mut interleaved = false;
    match scenario {
        0 | 1 => {
            let cap = if scenario == 1 { *rng.pick(&[1usize, 2, 3, 4, 8, 16, 64]) } else { 64 };
            let q: &'static OrderedWorkStealQueue<Item> = Box::leak(Box::new(OrderedWorkStealQueue::new(1, cap)));
            let local = q.local_queue();
            let mut model = PModel::default();
            let n = rng.usize(4, if thorough { 300 } else { 80 });
            let mut id = 0u64;
            let mut seen_prios: HashSet<i64> = HashSet::new();
            let mut popped_any = false;
            for _ in 0..n {
                let can_push = scenario == 0 || model.len() < cap;
                if can_push && rng.chance(60, 100) {
                    let p = prio_from(&mut rng, palette);
                    if !seen_prios.insert(p) {
                        ties = true;
                    }
                    if popped_any {
                        interleaved = true;
                    }
                    trace.push(format!("+{p}"));
                    model.push(p, id);
                    if scenario == 0 {
                        q.push_with_priority(p, Item { id, prio: p });
                    } else {
                        local.push_with_priority(p, Item { id, prio: p });
                    }
                    id += 1;
                } else {
                    let got = if scenario == 0 { q.pop() } else { local.pop() };
                    let want = model.pop();
                    popped_any = true;
                    trace.push(format!("-{}", got.map_or("none".into(), |g| g.prio.to_string())));
                    if got.map(|g| g.id) != want {
                        viol = Some((
                            if scenario == 0 { "shared-pop-order".into() } else { "local-pop-order".into() },
                            format!("pop returned {:?}, reference model says id {:?}", got, want),
                        ));
                        break;
                    }
                }
            }
            while local.pop().is_some() {}
            std::mem::forget(local);
        }
        _ => {
            // steal: victim A is filled (within capacity), thief B pops.
            let cap = *rng.pick(&[2usize, 3, 4, 8, 16, 64]);
            let q: &'static OrderedWorkStealQueue<Item> = Box::leak(Box::new(OrderedWorkStealQueue::new(2, cap)));
            let a = q.local_queue();
            let b = q.local_queue();
            let n = rng.usize(1, cap);
            let mut pushed: HashMap<u64, (i64, u64)> = HashMap::new(); // id -> (prio, arrival seq in its current queue)
            let mut seen_prios: HashSet<i64> = HashSet::new();
            for id in 0..n as u64 {
                let p = prio_from(&mut rng, palette);
                if !seen_prios.insert(p) {
                    ties = true;
                }
                trace.push(format!("A+{p}"));
                a.push_with_priority(p, Item { id, prio: p });
                pushed.insert(id, (p, id));
            }
            // B pops until its local queue is drained; everything it returns while its own
            // queue is non-empty was resident in B's queue together => must be sorted.
            let mut arrival = 1_000_000u64;
            let mut next_id = n as u64;
            let mut rounds = 0;
            'outer: while rounds < 4 * cap + 8 {
                rounds += 1;
                let first = b.pop();
                let Some(first) = first else { break };
                trace.push(format!("B-{}", first.prio));
                if pushed.get(&first.id).map(|x| x.0) != Some(first.prio) {
                    viol = Some(("stolen-item-priority-changed".into(), format!("{first:?}")));
                    break;
                }
                let k = b.local_len();
                interleaved = true;
                // optionally add own items of other priorities into B before draining the batch
                let mut own: Vec<Item> = vec![];
                if rng.chance(1, 2) {
                    let room = cap.saturating_sub(k);
                    for _ in 0..rng.usize(0, room.min(3)) {
                        let p = prio_from(&mut rng, palette);
                        let it = Item { id: next_id, prio: p };
                        next_id += 1;
                        trace.push(format!("B+{p}"));
                        b.push_with_priority(p, it);
                        pushed.insert(it.id, (p, arrival));
                        arrival += 1;
                        own.push(it);
                    }
                }
                let resident = k + own.len();
                let mut batch: Vec<Item> = vec![];
                for _ in 0..resident {
                    match b.pop() {
                        Some(it) => {
                            trace.push(format!("B-{}", it.prio));
                            batch.push(it);
                        }
                        None => {
                            viol = Some(("resident-item-not-returned".into(), format!("B believed {resident} resident items but pop returned None")));
                            break 'outer;
                        }
                    }
                }
                // sortedness of what was resident together (the first item left before `own` arrived,
                // so it is only compared with the stolen part)
                let key = |it: &Item| (it.prio, pushed[&it.id].1);
                for w in batch.windows(2) {
                    if !pushed.contains_key(&w[0].id) || !pushed.contains_key(&w[1].id) {
                        viol = Some(("unknown-item".into(), format!("{w:?}")));
                        break 'outer;
                    }
                    if key(&w[0]) > key(&w[1]) {
                        viol = Some(("batch-order".into(), format!("{:?} came out before {:?} although both were waiting in the same local queue", w[0], w[1])));
                        break 'outer;
                    }
                }
                if let Some(nx) = batch.iter().find(|it| !own.iter().any(|o| o.id == it.id)) {
                    if key(&first) > key(nx) {
                        viol = Some(("batch-order".into(), format!("{first:?} came out before {nx:?} (same stolen batch)")));
                        break;
                    }
                }
            }
            while a.pop().is_some() {}
            while b.pop().is_some() {}
            std::mem::forget(a);
            std::mem::forget(b);
        }
    }
    let desc = jobj! {"scenario" => ["shared-alone", "one-local-within-capacity", "steal-batches"][scenario as usize], "trace" => trace.join(" ")};
    let fp = fp_of(&trace.join(" "));
    let obs = jobj! {"ops" => trace.len(), "equal_priorities_present" => ties, "push_after_pop" => interleaved};
    match viol {
        Some((k, d)) => (Verdict::Violated, format!("C05/{k}"), d, true, fp, obs, desc),
        None => (Verdict::Held, String::new(), String::new(), ties && trace.len() >= 4, fp, obs, desc),
    }
}

/// Bounded-exhaustive: every history of length <= L over {push p0,p1,p2, pop} on one local
/// (capacity 8, never overflowing) and on the shared queue.
fn c05_exhaustive(out: &Out, max_len: usize, base_case: u64) -> u64 {
    let mut count = 0u64;
    let mut viol = 0u64;
    let mut stack: Vec<Vec<u8>> = vec![vec![]];
    while let Some(h) = stack.pop() {
        if h.len() < max_len {
            for o in 0..4u8 {
                let mut n = h.clone();
                n.push(o);
                stack.push(n);
            }
        }
        if h.is_empty() {
            continue;
        }
        for target in 0..2 {
            let q: &'static OrderedWorkStealQueue<Item> = Box::leak(Box::new(OrderedWorkStealQueue::new(1, 8)));
            let local = q.local_queue();
            let mut model = PModel::default();
            let mut id = 0;
            let mut bad = None;
            for o in &h {
                if *o < 3 {
                    let p = i64::from(*o) - 1;
                    model.push(p, id);
                    if target == 0 {
                        q.push_with_priority(p, Item { id, prio: p });
                    } else {
                        local.push_with_priority(p, Item { id, prio: p });
                    }
                    id += 1;
                } else {
                    let got = if target == 0 { q.pop() } else { local.pop() };
                    let want = model.pop();
                    if got.map(|g| g.id) != want {
                        bad = Some(format!("history {h:?} target {target}: got {got:?} want {want:?}"));
                        break;
                    }
                }
            }
            while local.pop().is_some() {}
            std::mem::forget(local);
            count += 1;
            if let Some(b) = bad {
                viol += 1;
                if viol <= 3 {
                    let case = base_case + viol;
                    out.begin(case, jobj! {"scenario" => "exhaustive", "history" => format!("{h:?}"), "target" => target});
                    out.end(case, Verdict::Violated, if target == 0 { "C05/shared-pop-order" } else { "C05/local-pop-order" }, true, "", J::Null, &b);
                }
            }
        }
    }
    out.stat(jobj! {"exhaustive_histories" => count, "exhaustive_violations" => viol, "exhaustive_max_len" => max_len});
    count
}

fn cmd_c05(args: &Args, out: &Out) {
    let seed = args.u64("seed", 1);
    let (a, b) = case_range(args, 8);
    for case in a..b {
        out.begin(case, jobj! {"scenario" => case % 3});
        let (v, sig, detail, nt, fp, obs, desc) = c05_case(seed, case, args.thorough());
        out.line(&jobj! {"t" => "desc", "case" => case, "desc" => desc});
        out.end(case, v, &sig, nt, &fp, obs, &detail);
    }
    if let Some(l) = args.get("exhaustive") {
        let l: usize = l.parse().unwrap_or(5);
        c05_exhaustive(out, l, 10_000_000);
    }
}

// ====================================================================== C06
/// (a) starvation bound; (b) idle local obtains work. Enumerated, not sampled:
/// case index encodes the configuration.
fn c06_case(case: u64) -> (Verdict, String, String, bool, String, J, J) {
    // layout: even => (a) with phi = case/4 %201.. ; odd => (b)
    let kind = if (case / 2) % 2 == 0 { Kind::Ordered } else { Kind::Plain };
    if case % 2 == 0 {
        let phi = (case / 4) % 201;
        let hi = (case / 4 / 201) % 2 == 0; // X of highest or lowest priority
        let cap = 8usize;
        let shared = Shared::new(kind, 1, cap);
        let local = shared.local();
        let mut id = 1u64;
        // keep occupancy in [1, cap/2]: push one per pop, starting with 3
        for _ in 0..3 {
            local.push(Item { id, prio: 0 });
            id += 1;
        }
        for _ in 0..phi {
            let _ = local.pop();
            local.push(Item { id, prio: 0 });
            id += 1;
        }
        let xprio = if hi { i64::MIN } else { i64::MAX };
        shared.push(Item { id: 0, prio: xprio });
        let mut pops = 0u64;
        let mut found = false;
        while pops < 200 {
            pops += 1;
            let got = local.pop();
            local.push(Item { id, prio: 0 });
            id += 1;
            if got.map(|g| g.id) == Some(0) {
                found = true;
                break;
            }
        }
        let mut g = 0;
        while local.pop().is_some() && g < 1000 {
            g += 1;
        }
        std::mem::forget(local);
        let desc = jobj! {"part" => "starvation-bound", "kind" => kind.name(), "prior_pops" => phi, "x_priority" => if hi {"highest"} else {"lowest"}};
        let obs = jobj! {"pops_until_shared_item" => pops, "found" => found};
        let fp = format!("a|{}|{}|{}", kind.name(), phi % 61, hi);
        if !found || pops > 61 {
            (Verdict::Violated, format!("C06/{}/shared-item-starved", kind.name()), format!("shared item returned after {pops} pops (found={found}), bound is 61"), true, fp, obs, desc)
        } else {
            (Verdict::Held, String::new(), String::new(), true, fp, obs, desc)
        }
    } else {
        let idx = case / 4;
        let cap = 1 + (idx % 16) as usize;
        let where_shared = (idx / 16) % 2 == 1;
        let n = 1 + ((idx / 32) as usize % cap);
        let shared = Shared::new(kind, 3, cap);
        let a = shared.local();
        let b = shared.local();
        let c = shared.local();
        for i in 0..n {
            let it = Item { id: i as u64, prio: (i % 3) as i64 };
            if where_shared {
                shared.push(it);
            } else {
                a.push(it);
            }
        }
        let got = b.pop();
        for l in [&a, &b, &c] {
            let mut g = 0;
            while l.pop().is_some() && g < 1000 {
                g += 1;
            }
        }
        std::mem::forget(a);
        std::mem::forget(b);
        std::mem::forget(c);
        let desc = jobj! {"part" => "idle-local-finds-work", "kind" => kind.name(), "capacity" => cap, "items" => n, "work_is_in" => if where_shared {"shared"} else {"sibling"}};
        let obs = jobj! {"pop_result" => got.map(|g| g.id)};
        let fp = format!("b|{}|{}|{}|{}", kind.name(), cap, n, where_shared);
        if got.is_none() {
            (Verdict::Violated, format!("C06/{}/idle-local-reports-empty/{}", kind.name(), if where_shared { "shared" } else { "sibling" }), "pop() on an empty local returned None although work was waiting".into(), true, fp, obs, desc)
        } else {
            (Verdict::Held, String::new(), String::new(), true, fp, obs, desc)
        }
    }
}

/// (c) after being stolen from (stale bookkeeping), an idle local must still find work.
fn c06_after_steal(seed: u64, case: u64) -> (Verdict, String, String, bool, String, J, J) {
    let mut rng = Rng::for_case(seed ^ 0xC06, case);
    let kind = if case % 2 == 0 { Kind::Ordered } else { Kind::Plain };
    let cap = rng.usize(2, 16);
    let shared = Shared::new(kind, 2, cap);
    let a = shared.local();
    let b = shared.local();
    let mut id = 0u64;
    let mut trace = vec![];
    let n = rng.usize(2, cap);
    for _ in 0..n {
        a.push(Item { id, prio: rng.below(3) as i64 });
        id += 1;
    }
    trace.push(format!("A+x{n}"));
    // B takes everything away from A (steals + pops)
    let mut taken = 0;
    while b.pop().is_some() {
        taken += 1;
    }
    trace.push(format!("B-x{taken}"));
    // now A is truly empty; work appears in B
    let m = rng.usize(1, cap);
    for _ in 0..m {
        b.push(Item { id, prio: rng.below(3) as i64 });
        id += 1;
    }
    trace.push(format!("B+x{m}"));
    let got = a.pop();
    trace.push(format!("A- => {:?}", got.map(|g| g.id)));
    for l in [&a, &b] {
        let mut g = 0;
        while l.pop().is_some() && g < 1000 {
            g += 1;
        }
    }
    std::mem::forget(a);
    std::mem::forget(b);
    let desc = jobj! {"part" => "idle-after-being-stolen-from", "kind" => kind.name(), "capacity" => cap, "trace" => trace.join(" ")};
    let fp = format!("c|{}|{}|{}|{}", kind.name(), cap, n, m);
    let obs = jobj! {"taken_by_sibling" => taken, "pop_result" => got.map(|g| g.id)};
    if taken != n {
        return (Verdict::Inconclusive, "setup".into(), format!("sibling took {taken} of {n}"), false, fp, obs, desc);
    }
    if got.is_none() {
        (Verdict::Violated, format!("C06/{}/idle-local-reports-empty/after-being-stolen-from", kind.name()), "pop() returned None although the sibling holds work".into(), true, fp, obs, desc)
    } else {
        (Verdict::Held, String::new(), String::new(), true, fp, obs, desc)
    }
}

fn cmd_c06(args: &Args, out: &Out) {
    let seed = args.u64("seed", 1);
    let (a, b) = case_range(args, 8);
    let enumerated = args.u64("enumerated", 0);
    for case in a..b {
        out.begin(case, jobj! {"case" => case});
        let (v, sig, detail, nt, fp, obs, desc) = if case < enumerated { c06_case(case) } else { c06_after_steal(seed, case) };
        out.line(&jobj! {"t" => "desc", "case" => case, "desc" => desc});
        out.end(case, v, &sig, nt, &fp, obs, &detail);
    }
}

fn main() {
    let args = Args::parse();
    let out = Out::open(&args);
    match args.pos.first().map(String::as_str) {
        Some("c03") => cmd_c03(&args, &out, false),
        Some("c04conc") => cmd_c03(&args, &out, true),
        #[cfg(not(miri))]
        Some("c04seq") => cmd_c04seq(&args, &out),
        Some("c05") => cmd_c05(&args, &out),
        Some("c06") => cmd_c06(&args, &out),
        Some("noop") => {}
        other => {
            eprintln!("unknown subcommand {other:?}");
            std::process::exit(64);
        }
    }
}
