//! The real sources, straight from /repo's working tree.
#![allow(dead_code, unused_macros, unused_imports, clippy::all)]

#[macro_use]
#[path = "/repo/core/src/common/macros.rs"]
mod macros;

#[path = "/repo/core/src/common/work_steal.rs"]
pub mod work_steal;

#[path = "/repo/core/src/common/ordered_work_steal.rs"]
pub mod ordered_work_steal;

#[path = "/repo/core/src/common/beans.rs"]
pub mod beans;

#[path = "/repo/core/src/coroutine/local.rs"]
pub mod local;
